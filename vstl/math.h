#ifndef VSTL_MATH_H
#define VSTL_MATH_H
#include "vstl_base.h"
extern "C" { double pow(double, double); double floor(double); double ceil(double); double fabs(double); double copysign(double, double); }
#endif
