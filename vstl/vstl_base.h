// vstl: verification model of the std headers used by the kernels.
// Every precondition whose violation throws / is UB in libstdc++ is a named assertion.
// Capacity limits are assumptions (never assertions): a cap can bound a check, never alarm.
#ifndef VSTL_BASE_H
#define VSTL_BASE_H
typedef unsigned long size_t;
typedef long ptrdiff_t;
typedef long ssize_t;
typedef long time_t;
typedef long off_t;
typedef long streampos_t;
#ifndef NULL
#define NULL 0
#endif
extern "C" {
void __CPROVER_assume(bool);
void __CPROVER_assert(bool, const char *);
void *malloc(size_t);
void free(void *);
void abort(void);
// symex dereferences integer-valued addresses (e.g. NULL + member offset on a guarded path) through this built-in array;
// the C front end declares it, the C++ front end does not
extern unsigned char __CPROVER_memory[];
void exit(int);
}
#define VSTL_REQ(c, msg) do { __CPROVER_assert((c), "vstl.pre: " msg); __CPROVER_assume(c); } while (0)
#ifndef VSTL_STR_CAP
#define VSTL_STR_CAP 8
#endif
#ifndef VSTL_VEC_CAP
#define VSTL_VEC_CAP 4
#endif
#ifndef VSTL_MAP_CAP
#define VSTL_MAP_CAP 4
#endif
int nondet_int();
unsigned nondet_uint();
bool nondet_bool();
char nondet_char();
size_t nondet_size_t();
long nondet_long();
double nondet_double();
namespace std {
typedef ::size_t size_t;
typedef ::ptrdiff_t ptrdiff_t;
template<class A, class B> struct pair {
  typedef A first_type; typedef B second_type;
  A first; B second;
  pair() : first(), second() {}
  pair(const A &a, const B &b) : first(a), second(b) {}
};
template<class A, class B> pair<A,B> make_pair(const A &a, const B &b) { return pair<A,B>(a,b); }
template<class T> const T &min(const T &a, const T &b) { return (b < a) ? b : a; }
template<class T> const T &max(const T &a, const T &b) { return (a < b) ? b : a; }
template<class T> void swap(T &a, T &b) { T t = a; a = b; b = t; }
}
#endif
