#ifndef VSTL_CTYPE_H
#define VSTL_CTYPE_H
// C locale classification, bit-precise
inline int isdigit(int c) { return c >= '0' && c <= '9'; }
inline int isxdigit(int c) { return (c >= '0' && c <= '9') || (c >= 'a' && c <= 'f') || (c >= 'A' && c <= 'F'); }
inline int isalpha(int c) { return (c >= 'a' && c <= 'z') || (c >= 'A' && c <= 'Z'); }
inline int isalnum(int c) { return isalpha(c) || isdigit(c); }
inline int isspace(int c) { return c == ' ' || (c >= 9 && c <= 13); }
inline int isupper(int c) { return c >= 'A' && c <= 'Z'; }
inline int islower(int c) { return c >= 'a' && c <= 'z'; }
inline int isprint(int c) { return c >= 32 && c < 127; }
inline int isgraph(int c) { return c > 32 && c < 127; }
inline int ispunct(int c) { return isgraph(c) && !isalnum(c); }
inline int iscntrl(int c) { return (c >= 0 && c < 32) || c == 127; }
inline int toupper(int c) { return islower(c) ? c - 32 : c; }
inline int tolower(int c) { return isupper(c) ? c + 32 : c; }
#endif
