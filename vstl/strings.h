#ifndef VSTL_STRINGS_H
#define VSTL_STRINGS_H
#include "vstl_base.h"
extern "C" { int strncasecmp(const char *a, const char *b, size_t n); int strcasecmp(const char *a, const char *b); }
#endif
