// definitions of the std globals (include once per TU, after <iostream>)
#ifndef VSTL_GLOBALS_H
#define VSTL_GLOBALS_H
#include "iostream"
namespace std { ostream cout(true); ostream cerr(true); istream cin; }
#endif
