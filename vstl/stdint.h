#ifndef VSTL_STDINT_H
#define VSTL_STDINT_H
typedef signed char int8_t; typedef unsigned char uint8_t; typedef short int16_t; typedef unsigned short uint16_t;
typedef int int32_t; typedef unsigned int uint32_t; typedef long int64_t; typedef unsigned long uint64_t;
typedef long intptr_t; typedef unsigned long uintptr_t;
#define UINT64_C(x) x##UL
#define UINT64_MAX 18446744073709551615UL
#define INT64_MAX 9223372036854775807L
#define UINT32_MAX 4294967295U
#define INT32_MAX 2147483647
#define INT64_C(x) x##L
#endif
