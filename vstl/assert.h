#ifndef VSTL_ASSERT_H
#define VSTL_ASSERT_H
// Baseline configuration is RelWithDebInfo (-DNDEBUG): assert() is a no-op and the code after it runs.
#define assert(x) ((void)0)
#endif
