#ifndef VSTL_STRING_H
#define VSTL_STRING_H
#include "vstl_base.h"
#ifdef VSTL_ABSTRACT_CSTR
size_t __CPROVER_uninterpreted_cstr_len(const char *p);
inline size_t strlen(const char *s) { __CPROVER_assert(s != 0, "vstl.pre: strlen non-null"); return __CPROVER_uninterpreted_cstr_len(s); }
#else
extern "C" size_t strlen(const char *s);
#endif
extern "C" {
int strcmp(const char *a, const char *b);
int strncmp(const char *a, const char *b, size_t n);
char *strcpy(char *d, const char *s);
char *strncpy(char *d, const char *s, size_t n);
char *strchr(const char *s, int c);
char *strrchr(const char *s, int c);
char *strdup(const char *s);
void *memcpy(void *d, const void *s, size_t n);
void *memmove(void *d, const void *s, size_t n);
void *memset(void *d, int c, size_t n);
int memcmp(const void *a, const void *b, size_t n);
}
#endif
