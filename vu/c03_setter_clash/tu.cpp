// VU c03_setter_clash: InterrogateBuilder::get_setter.  A setter is synthesised for a data member only if no function of
// the same fully scoped name exists already (a user's own set_x): otherwise two wrappers of one name would be emitted.
// The test must therefore be made on the name the setter will really have - inside the scope of its class.
#include "env.h"
CPPParser parser;
// ---- callees (contracts in replace form)
static CPPIdentifier g_ident;
CPPInstance::CPPInstance(CPPType *type, const std::string &name) : _type(type), _ident(&g_ident), _storage_class(0), _initializer(0) { g_ident._native_scope = 0; }
// the scoped name of a function depends on the scope recorded in its identifier
static CPPScope *g_scope_at_name_test; static int g_name_tests; static bool vin_clash;
std::string TypeManager::get_function_name(CPPInstance *function) { g_name_tests++; g_scope_at_name_test = function->_ident->_native_scope; return std::string("n"); }
static int g_get_function_calls; static int g_flags_given; static FunctionIndex vin_new_index; static InterrogateFunction g_ifunc;
FunctionIndex InterrogateBuilder::get_function(CPPInstance *function, std::string description, CPPStructType *struct_type, CPPScope *scope, int flags, const std::string &expression) { g_get_function_calls++; g_flags_given = flags; return vin_new_index; }
InterrogateDatabase *InterrogateDatabase::get_ptr() { static InterrogateDatabase db; return &db; }
InterrogateFunction &InterrogateDatabase::update_function(FunctionIndex index) { return g_ifunc; }
//@extract src/interrogate/interrogateBuilder.cxx InterrogateBuilder::get_setter r15

static InterrogateBuilder g_builder; static CPPStructType g_struct; static CPPScope g_scope; static CPPType g_type;
void h_get_setter() {
  vin_clash = nondet_bool(); vin_new_index = nondet_int(); __CPROVER_assume(vin_new_index != 0);
  g_builder._functions_by_name._n = 0;
  if (vin_clash) g_builder._functions_by_name[std::string("n")] = 5;
  bool vin_member = nondet_bool();
  static CPPInstance element(&g_type, std::string("x")); element._storage_class = nondet_int();
  CPPExpression *vin_init = nondet_bool() ? (CPPExpression *)vu_alloc(8) : (CPPExpression *)0; element._initializer = vin_init;
  g_name_tests = g_get_function_calls = 0; g_scope_at_name_test = (CPPScope *)0;
  FunctionIndex r = g_builder.get_setter(&g_type, std::string("x"), vin_member ? &g_struct : (CPPStructType *)0, vin_member ? &g_scope : (CPPScope *)&parser, vin_member ? &element : (CPPInstance *)0);
  OBL(g_name_tests == 1 && g_scope_at_name_test == (vin_member ? &g_scope : (CPPScope *)&parser), "C03.get_setter: the clash test is made on the setter's fully scoped name (its identifier already carries the scope of the class)");
  OBL(vin_clash ? (r == 0 && g_get_function_calls == 0) : (r == vin_new_index && g_get_function_calls == 1), "C03.get_setter: no setter is synthesised when a function of that name exists; otherwise exactly one is");
  if (!vin_clash) OBL((g_flags_given & InterrogateFunction::F_setter) != 0 && ((g_flags_given & InterrogateFunction::F_method) != 0) == (vin_member && (element._storage_class & CPPInstance::SC_static) == 0), "C03.get_setter: the setter of a non-static member is a method, that of a static member or a global is not");
  OBL(element._initializer == vin_init, "C03.get_setter: the data member is left as it was declared: its initializer is still known afterwards (the class's implicit constructors and later constants are judged from it)");
  VU_REACHED();
}
