// Native conformance check of the skeletons used by VU c03_setter_clash.
#include "interrogateBuilder.h"
#include "typeManager.h"
#include "cppInstance.h"
#include "cppIdentifier.h"
#include "interrogateFunction.h"
#include <type_traits>
static_assert(std::is_same<InterrogateBuilder::FunctionsByName, std::map<std::string, FunctionIndex> >::value, "FunctionsByName");
static_assert(std::is_same<decltype(InterrogateBuilder::_functions_by_name), InterrogateBuilder::FunctionsByName>::value, "_functions_by_name");
static_assert(std::is_same<decltype(&InterrogateBuilder::get_setter), FunctionIndex (InterrogateBuilder::*)(CPPType *, std::string, CPPStructType *, CPPScope *, CPPInstance *)>::value, "get_setter");
static_assert(std::is_same<decltype(&TypeManager::get_function_name), std::string (*)(CPPInstance *)>::value, "get_function_name");
static_assert(std::is_same<decltype(CPPInstance::_ident), CPPIdentifier *>::value, "_ident");
static_assert(std::is_same<decltype(CPPIdentifier::_native_scope), CPPScope *>::value, "_native_scope");
static_assert((int)CPPInstance::SC_static == 0x001 && (int)InterrogateFunction::F_setter == 0x0020 && (int)InterrogateFunction::F_method == 0x0004, "flags");
int main() { return 0; }
