// Environment of InterrogateBuilder::get_setter: skeletons of the objects it touches (conformance.cpp checks the
// member signatures against the real headers).
#ifndef C03S_ENV_H
#define C03S_ENV_H
#include "vu_common.h"
#include <string>
#include <vector>
#include <map>
#include <sstream>
#include <assert.h>
#include "vstl_globals.h"
using std::string; using std::ostringstream;
typedef int FunctionIndex;
class CPPScope { public: int _k; };
class CPPType { public: int _k; };
class CPPStructType : public CPPType {};
class CPPExpression;
class CPPIdentifier { public: CPPScope *_native_scope; };
class CPPParameterList;
class CPPInstance {
public:
  enum StorageClass { SC_static = 0x001 };
  CPPInstance(CPPType *type, const std::string &name);
  std::string get_local_name(CPPScope *scope = (CPPScope *)0) const { return std::string("x"); }
  void output(std::ostream &out, int indent_level, CPPScope *scope, bool complete) const {}
  CPPType *_type; CPPIdentifier *_ident; int _storage_class; CPPExpression *_initializer;
};
class CPPParameterList { public: std::vector<CPPInstance *> _parameters; };
class CPPFunctionType : public CPPType { public: CPPFunctionType(CPPType *ret, CPPParameterList *params, int flags) {} };
class CPPParser : public CPPScope {};
extern CPPParser parser;
class InterrogateFunction { public: enum Flags { F_method = 0x0004, F_setter = 0x0020 }; std::string _comment; };
class InterrogateDatabase { public: static InterrogateDatabase *get_ptr(); InterrogateFunction &update_function(FunctionIndex index); };
class TypeManager { public: static CPPType *get_void_type() { static CPPType t; return &t; } static std::string get_function_name(CPPInstance *function); };
class InterrogateBuilder {
public:
  typedef std::map<std::string, FunctionIndex> FunctionsByName;
  FunctionIndex get_setter(CPPType *expr_type, std::string expression, CPPStructType *struct_type, CPPScope *scope, CPPInstance *element);
  FunctionIndex get_function(CPPInstance *function, std::string description, CPPStructType *struct_type, CPPScope *scope, int flags, const std::string &expression);
  static std::string clean_identifier(const std::string &name) { return std::string("s"); }
  FunctionsByName _functions_by_name;
};
#endif
