// VU c15_r_expand: CPPManifest::r_expand (one level; the expansion of a nested __VA_OPT__ group is the recursive callee) on
// arbitrary expansion node lists and argument lists: no std::vector / std::string precondition is violated, whatever the
// relation between the number of arguments, the number of parameters and the variadic parameter.  Bounded (B mode).
#define private public
#define protected public
#include "vu_common.h"
//@headers src/dtoolbase src/dtoolutil src/cppparser
//@shadow filename.h dSearchPath.h
//@hdrsubst cpp*.h except=cppDeclaration.h "from=(?m)^\s*virtual CPP\w+ \*as_\w+\(\);\s*$" to=
//@hdrsubst cpp*.h "from=\bvirtual\s+" to=
// R22: the recursive member std::vector<ExpansionNode> cannot be modelled by the array-based vstl vector (a class containing
// an array of itself).  The member becomes a placeholder pointer; the kernel's accesses `node._nested` go to the stub
// vu_nested(node), which yields an arbitrary node list (the recursive call that consumes it is replaced by its contract).
// The array-based vector also needs a default constructor for its element type: one is inserted into the header copy.
//@hdrsubst cppManifest.h "from=std::vector<ExpansionNode> _nested;" "to=ExpansionNode *_nested_vu_unused; ExpansionNode() {}"
//@hdrsubst cppManifest.h "from=ExpansionNode\(std::vector<ExpansionNode> nested[^;]*;" to=
// default arguments that are class temporaries crash the front end (declaration of CPPManifest::expand, not a kernel)
//@hdrsubst cpp*.h "from= = (vector_string|Ignores|CPPManifest::Ignores|YYSTYPE)\(\)" to=
// R16: the reference member `const CPPPreprocessor &_parser` (bad reference initializer in the front end) becomes a pointer
//@hdrsubst cppManifest.h "from=const CPPPreprocessor &_parser;" "to=CPPPreprocessor *_parser;"
//@hdrinsert cppManifest.h after="typedef std::vector<ExpansionNode> Expansion;" text="std::string r_expand__body(const Expansion &expansion, const vector_string &args, bool expand_undefined, const Ignores &ignores) const;"
//@bison src/cppparser/cppBison.yxx cppBison.h
#include "dtoolbase.h"
#include "cppPreprocessor.h"
#include "cppBison.h"
#include <ctype.h>
#include "vstl_globals.h"

#include "cppManifest.h"

CPPFile::CPPFile(const Filename &filename, const Filename &filename_as_referenced, Source source) : _source(source), _pragma_once(false) {}
CPPManifest::~CPPManifest() {}
// callees (replace form)
static int g_expand_calls;
void CPPPreprocessor::expand_manifests(std::string &expr, bool expand_undefined, const CPPManifest::Ignores &ignores) const { g_expand_calls++; }
static CPPManifest::Expansion g_nested;
static const CPPManifest::Expansion &vu_nested(const CPPManifest::ExpansionNode &node) { return g_nested; }
static int g_rec_calls;
std::string CPPManifest::r_expand(const Expansion &expansion, const vector_string &args, bool expand_undefined, const Ignores &ignores) const {
  g_rec_calls++; std::string r; if (nondet_bool()) r += 'n'; return r;
}
//@extract src/cppparser/cppManifest.cxx CPPManifest::stringify
//@extract src/cppparser/cppManifest.cxx CPPManifest::r_expand rename=__body r3 r15 "subst1=@_parser\.expand_manifests@_parser->expand_manifests@" "subst2=@node\._nested\b@vu_nested(node)@"

static void any_text(std::string &s, size_t max) {
  s._trunc = false; s._n = nondet_size_t(); __CPROVER_assume(s._n <= max);
  for (size_t i = 0; i < std::string::CAP; i++) { char c = nondet_char(); s._d[i] = (i < s._n) ? c : (char)0; if (i < s._n) __CPROVER_assume(c != 0); }
  s._d[std::string::CAP] = 0;
}
static CPPManifest::Expansion g_expansion;
void h_r_expand_any() {
  CPPManifest *m = VU_NEW(CPPManifest);
  m->_parser = VU_NEW(CPPPreprocessor);
  m->_num_parameters = nondet_size_t(); __CPROVER_assume(m->_num_parameters <= 3);
  m->_variadic_param = nondet_int(); __CPROVER_assume(m->_variadic_param >= -1 && (m->_variadic_param < 0 || (size_t)m->_variadic_param + 1 == m->_num_parameters));   // as the constructor sets it: -1, or the last parameter
  // any node list (as save_expansion can build it: parameter numbers are -1 or a parameter index)
  g_expansion._trunc = false; g_expansion._n = nondet_size_t(); __CPROVER_assume(g_expansion._n <= 2);
  for (int i = 0; i < 2; i++) {
    CPPManifest::ExpansionNode &n = g_expansion._d[i];
    n._parm_number = nondet_int(); __CPROVER_assume(n._parm_number >= -1 && n._parm_number < (int)m->_num_parameters);
    n._expand = nondet_bool(); n._stringify = nondet_bool(); n._paste = nondet_bool(); n._optional = nondet_bool();
    any_text(n._str, 1);
  }
  g_nested._trunc = false; g_nested._n = nondet_size_t(); __CPROVER_assume(g_nested._n <= 1);
  // any number of arguments: fewer than, as many as, or more than the parameters
  vector_string args; size_t vin_nargs = nondet_size_t(); __CPROVER_assume(vin_nargs <= 2);
  for (size_t i = 0; i < 2; i++) if (i < vin_nargs) { std::string a; any_text(a, 1); args.push_back(a); }
  CPPManifest::Ignores ignores;
  std::string r = m->r_expand__body(g_expansion, args, nondet_bool(), ignores);
  OBL(g_rec_calls <= 2, "C15.r_expand: each nested group is expanded at most once");
  VU_REACHED();
}
