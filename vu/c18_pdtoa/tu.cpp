// VU c18_pdtoa: the number formatter.  The file src/dtoolbase/pdtoa.cxx is compiled as it is (C-style C++);
// contracts are harness-encoded in the same translation unit (the functions are file-static).
#include "vu_common.h"
//@headers src/dtoolbase
// R12: `T x = c ? T(a) : T(b);` (conditional operator over class temporaries crashes CBMC's symex) -> if/else
//@whole src/dtoolbase/pdtoa.cxx "osubst1=@(\w+) (\w+) = (\([^?;]*\)) \? (\1\([^;]*?\)) : (\1\([^;]*\));@\1 \2; if \3 \2 = \4; else \2 = \5;@"

static bool is_digit(char c) { return c >= '0' && c <= '9'; }

// ---------------------------------------------------------------- WriteExponent
void h_write_exponent() {
  int vin_K = nondet_int(); __CPROVER_assume(vin_K >= -999 && vin_K <= 999);   // callers: kk-1 with |k| <= 343, length <= 17
  char buf[8]; for (int i = 0; i < 8; i++) buf[i] = 'x';
  WriteExponent(vin_K, buf);
  // independent spelling: sign, then the decimal digits of |K| without leading zeros
  int a = vin_K < 0 ? -vin_K : vin_K; int p = 0;
  if (vin_K < 0) { OBL(buf[p] == '-', "C18.WriteExponent: negative exponent starts with '-'"); p++; }
  int h = a / 100, t = (a / 10) % 10, u = a % 10;
  if (a >= 100) { OBL(buf[p] == '0' + h && buf[p + 1] == '0' + t && buf[p + 2] == '0' + u && buf[p + 3] == 0, "C18.WriteExponent: three-digit exponent is spelled with all three digits"); }
  else if (a >= 10) { OBL(buf[p] == '0' + t && buf[p + 1] == '0' + u && buf[p + 2] == 0, "C18.WriteExponent: two-digit exponent is spelled with both digits"); }
  else { OBL(buf[p] == '0' + u && buf[p + 1] == 0, "C18.WriteExponent: one-digit exponent is spelled with one digit"); }
  VU_REACHED();
}

// ---------------------------------------------------------------- CountDecimalDigit32
void h_count_decimal_digit32() {
  unsigned vin_n = nondet_uint();
  unsigned d = CountDecimalDigit32(vin_n);
  static const unsigned long p10[] = { 1UL, 10UL, 100UL, 1000UL, 10000UL, 100000UL, 1000000UL, 10000000UL, 100000000UL, 1000000000UL, 10000000000UL };
  OBL(d >= 1 && d <= 10, "C18.CountDecimalDigit32: between 1 and 10 digits");
  OBL((unsigned long)vin_n < p10[d] && (d == 1 || (unsigned long)vin_n >= p10[d - 1]), "C18.CountDecimalDigit32: 10^(d-1) <= n < 10^d");
  VU_REACHED();
}

// ---------------------------------------------------------------- DiyFp(double): exact decoding
void h_diyfp_from_double() {
  unsigned long vin_bits = nondet_size_t();
  union { unsigned long x; double d; } u; u.x = vin_bits & 0x7fffffffffffffffUL;     // non-negative
  unsigned long be = (u.x >> 52) & 0x7ff, mant = u.x & 0xfffffffffffffUL;
  __CPROVER_assume(be != 0x7ff);                                                     // finite
  DiyFp v(u.d);
  if (be != 0) OBL(v.f == (mant | (1UL << 52)) && v.e == (int)be - 1075, "C18.DiyFp: a normal double decodes to (mantissa with hidden bit) * 2^(biased exponent - 1075)");
  else OBL(v.f == mant && v.e == -1074, "C18.DiyFp: a subnormal double decodes to mantissa * 2^-1074");
  VU_REACHED();
}

// ---------------------------------------------------------------- NormalizedBoundaries
// m+ = v + ulp/2, m- = v - ulp/2, or v - ulp/4 when v is a power of two (the lower neighbour is closer);
// both expressed with the same exponent, m+ normalised to 64 bits.
void h_normalized_boundaries() {
  unsigned long vin_f = nondet_size_t(); int vin_e = nondet_int();
  __CPROVER_assume(vin_f >= 1 && vin_f < (1UL << 53) && vin_e >= -1074 && vin_e <= 971);
  __CPROVER_assume(vin_f >= (1UL << 52) || vin_e == -1074);                         // as decoded from a double
  DiyFp v(vin_f, vin_e), mi, pl;
  v.NormalizedBoundaries(&mi, &pl);
  OBL((pl.f >> 63) == 1, "C18.NormalizedBoundaries: the upper boundary is normalised to 64 bits");
  OBL(mi.e == pl.e, "C18.NormalizedBoundaries: both boundaries carry the same exponent");
  int s = (vin_e - 1) - pl.e;                                                        // shift applied to (2f+1, e-1)
  OBL(s >= 0 && s <= 63 && pl.f == ((2 * vin_f + 1) << s) && (((2 * vin_f + 1) << s) >> s) == 2 * vin_f + 1, "C18.NormalizedBoundaries: upper boundary is v + ulp/2 exactly");
  if (vin_f == (1UL << 52)) OBL(s >= 1 && mi.f == ((4 * vin_f - 1) << (s - 1)), "C18.NormalizedBoundaries: for a power of two the lower boundary is v - ulp/4 (the lower neighbour is closer)");
  else OBL(mi.f == ((2 * vin_f - 1) << s), "C18.NormalizedBoundaries: lower boundary is v - ulp/2 exactly");
  VU_REACHED();
}

// ---------------------------------------------------------------- Prettify: the text denotes digits * 10^k
void h_prettify() {
  char buf[40]; char vin_digits[17];
  int vin_length = nondet_int(), vin_k = nondet_int();
  __CPROVER_assume(vin_length >= 1 && vin_length <= 17 && vin_k >= -400 && vin_k <= 400);
  for (int i = 0; i < 17; i++) { char c = nondet_char(); __CPROVER_assume(is_digit(c)); vin_digits[i] = c; buf[i] = c; }
  __CPROVER_assume(vin_digits[0] != '0');
  for (int i = 17; i < 40; i++) buf[i] = 'x';
  Prettify(buf, vin_length, vin_k);
  // parse the text: digits [. digits] [e [-] digits]
  int n = 0; while (n < 40 && buf[n] != 0) n++;
  OBL(n <= 25, "C18.Prettify: output is NUL-terminated within 26 bytes (callers provide 32)");
  char D[40]; int nd = 0; int frac = 0; bool seen_dot = false, seen_e = false; int ex = 0; bool eneg = false; bool ok = true; int edigits = 0;
  for (int i = 0; i < 26; i++) if (i < n) {
    char c = buf[i];
    if (!seen_e) {
      if (is_digit(c)) { D[nd++] = c; if (seen_dot) frac++; }
      else if (c == '.' && !seen_dot) seen_dot = true;
      else if (c == 'e' && nd > 0) seen_e = true;
      else ok = false;
    } else {
      if (c == '-' && edigits == 0 && !eneg) eneg = true;
      else if (is_digit(c)) { ex = ex * 10 + (c - '0'); edigits++; }
      else ok = false;
    }
  }
  OBL(ok && nd >= 1 && (!seen_e || edigits >= 1), "C18.Prettify: output is a well-formed decimal literal");
  OBL(seen_dot || seen_e, "C18.Prettify: output never looks like an integer (it has a '.' or an exponent)");
  int scale = (eneg ? -ex : ex) - frac;            // text value = D * 10^scale
  int lead = 0; while (lead < nd - 1 && D[lead] == '0') lead++;
  int m = nd - lead;                               // significant digits of the text
  // compare D' * 10^scale with digits * 10^k digit by digit, padding the side with the larger exponent with zeros
  bool same = true;
  if (scale <= vin_k) { int z = vin_k - scale; if (m != vin_length + z) same = false;
    for (int i = 0; i < 40; i++) if (i < m) { char want = (i < vin_length) ? vin_digits[i] : '0'; if (D[lead + i] != want) same = false; } }
  else { int z = scale - vin_k; if (vin_length != m + z) same = false;
    for (int i = 0; i < 17; i++) if (i < vin_length) { char want = (i < m) ? D[lead + i] : '0'; if (vin_digits[i] != want) same = false; } }
  OBL(same, "C18.Prettify: the text denotes exactly digits * 10^k");
  VU_REACHED();
}

// ---------------------------------------------------------------- pdtoa: special values
// (bit patterns are concrete so that symbolic execution prunes the Grisu path; the special values are a finite set,
// NaN payloads are sampled: quiet, signalling, all ones)
static void pdtoa_special(unsigned long bits) {
  union { unsigned long x; double d; } u; u.x = bits;
  unsigned long be = (u.x >> 52) & 0x7ff, mant = u.x & 0xfffffffffffffUL; bool neg = (u.x >> 63) != 0;
  bool is_zero = be == 0 && mant == 0, is_one = be == 0x3ff && mant == 0, is_inf = be == 0x7ff && mant == 0, is_nan = be == 0x7ff && mant != 0;
  char buf[32]; for (int i = 0; i < 32; i++) buf[i] = 'x';
  pdtoa(u.d, buf);
  int p = 0;
  if (neg) { OBL(buf[0] == '-', "C18.pdtoa: a set sign bit gives a leading '-'"); p = 1; }
  else OBL(buf[0] != '-', "C18.pdtoa: no '-' without the sign bit");
  if (is_zero) OBL(buf[p] == '0' && buf[p + 1] == '.' && buf[p + 2] == '0' && buf[p + 3] == 0, "C18.pdtoa: zero is 0.0");
  if (is_one) OBL(buf[p] == '1' && buf[p + 1] == '.' && buf[p + 2] == '0' && buf[p + 3] == 0, "C18.pdtoa: one is 1.0");
  if (is_inf) OBL(buf[p] == 'i' && buf[p + 1] == 'n' && buf[p + 2] == 'f' && buf[p + 3] == 0, "C18.pdtoa: infinity is inf");
  if (is_nan) OBL(buf[p] == 'n' && buf[p + 1] == 'a' && buf[p + 2] == 'n' && buf[p + 3] == 0, "C18.pdtoa: NaN is nan");
  VU_REACHED();
}
void h_pdtoa_zero() { pdtoa_special(0x0000000000000000UL); }
void h_pdtoa_neg_zero() { pdtoa_special(0x8000000000000000UL); }
void h_pdtoa_one() { pdtoa_special(0x3ff0000000000000UL); }
void h_pdtoa_neg_one() { pdtoa_special(0xbff0000000000000UL); }
void h_pdtoa_inf() { pdtoa_special(0x7ff0000000000000UL); }
void h_pdtoa_neg_inf() { pdtoa_special(0xfff0000000000000UL); }
void h_pdtoa_qnan() { pdtoa_special(0x7ff8000000000000UL); }
void h_pdtoa_snan() { pdtoa_special(0x7ff4000000000001UL); }
void h_pdtoa_neg_nan() { pdtoa_special(0xffffffffffffffffUL); }
