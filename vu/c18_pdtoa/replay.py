"""Native replay for VU c18_pdtoa: compiles the real src/dtoolbase/pdtoa.cxx (included into a driver so that its
file-static functions are callable) and checks the counterexample against an independent oracle."""
import os, re, sys, tempfile, shutil
sys.path.insert(0, os.path.join(os.path.dirname(os.path.realpath(__file__)), "..", "..", "lib"))
import native

DRIVER = r'''
#include "%(repo)s/src/dtoolbase/pdtoa.cxx"
#include <stdio.h>
#include <stdlib.h>
#include <string.h>
int main(int argc, char **argv) {
  const char *mode = argv[1];
  if (!strcmp(mode, "wexp")) {
    int K = atoi(argv[2]); char buf[16], want[16]; WriteExponent(K, buf); snprintf(want, sizeof want, "%%d", K);
    printf("WriteExponent(%%d) = \"%%s\", expected \"%%s\"\n", K, buf, want); return strcmp(buf, want) != 0;
  }
  if (!strcmp(mode, "pretty")) {
    char buf[64]; strcpy(buf, argv[2]); int len = strlen(argv[2]); int k = atoi(argv[3]);
    char lit[80]; snprintf(lit, sizeof lit, "%%se%%d", argv[2], k);
    Prettify(buf, len, k);
    long double a = strtold(buf, nullptr), b = strtold(lit, nullptr);
    printf("Prettify(\"%%s\", %%d, %%d) = \"%%s\" (%%Lg), expected value %%Lg\n", argv[2], len, k, buf, a, b); return !(a == b) || !strpbrk(buf, ".e");
  }
  if (!strcmp(mode, "bounds")) {
    uint64_t f = strtoull(argv[2], nullptr, 10); int e = atoi(argv[3]);
    DiyFp v(f, e), mi, pl; v.NormalizedBoundaries(&mi, &pl);
    unsigned __int128 P = ((unsigned __int128)f << 1) + 1; int pe = e - 1; while (!(P >> 63)) { P <<= 1; pe--; }
    int s = (e - 1) - pe;
    unsigned __int128 M = (f == ((uint64_t)1 << 52)) ? ((((unsigned __int128)f << 2) - 1) << (s - 1)) : ((((unsigned __int128)f << 1) - 1) << s);
    printf("NormalizedBoundaries(f=%%llu,e=%%d): minus.f=%%llu expected %%llu; plus.f=%%llu expected %%llu\n", (unsigned long long)f, e,
           (unsigned long long)mi.f, (unsigned long long)M, (unsigned long long)pl.f, (unsigned long long)P);
    return mi.f != (uint64_t)M || pl.f != (uint64_t)P || mi.e != pe || pl.e != pe;
  }
  if (!strcmp(mode, "count")) { unsigned n = strtoul(argv[2], nullptr, 10); char b[16]; snprintf(b, sizeof b, "%%u", n); unsigned d = CountDecimalDigit32(n);
    printf("CountDecimalDigit32(%%u) = %%u, expected %%zu\n", n, d, strlen(b)); return d != strlen(b); }
  return 0;
}
'''


def num(v, d=0):
    try:
        return int(str(v).rstrip("ul"))
    except Exception:
        return d


def replay(ctx):
    vin, e = ctx["vin"], ctx["entry"]
    if e == "h_write_exponent":
        args = ["wexp", str(num(vin.get("vin_K")))]
    elif e == "h_prettify":
        n = max(1, min(17, num(vin.get("vin_length"), 1)))
        digs = ""
        for i in range(n):
            b = vin.get("vin_digits[%dl]#bin" % i)
            digs += chr(int(b, 2)) if b else "1"
        if not re.match(r"^[1-9][0-9]*$", digs):
            digs = "1" + "0" * (n - 1)
        args = ["pretty", digs, str(num(vin.get("vin_k")))]
    elif e == "h_normalized_boundaries":
        args = ["bounds", str(num(vin.get("vin_f"), 1 << 52)), str(num(vin.get("vin_e")))]
    elif e == "h_count_decimal_digit32":
        args = ["count", str(num(vin.get("vin_n")))]
    else:
        return {"reproduced": False, "note": "no replay template for %s" % e}
    d = tempfile.mkdtemp(prefix="verif-replay-", dir="/var/tmp")
    try:
        src = os.path.join(d, "drv.cpp")
        open(src, "w").write(DRIVER % {"repo": ctx["repo"]})
        rc, out = native.sh(["g++", "-std=gnu++11", "-O1", "-DNDEBUG", "-I%s/src/dtoolbase" % ctx["repo"], src, "-o", os.path.join(d, "drv")])
        if rc != 0:
            return {"reproduced": False, "error": "driver did not compile", "log": out[-1200:]}
        rc, out = native.sh(["timeout", "20", os.path.join(d, "drv")] + args)
        return {"reproduced": rc != 0, "cmd": "pdtoa.cxx driver " + " ".join(args), "observed": native.describe_exit(rc), "output": out[-400:]}
    finally:
        shutil.rmtree(d, ignore_errors=True)
