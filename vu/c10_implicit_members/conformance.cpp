// Native conformance check of the skeletons used by VU c10_implicit_members.
#include "interrogateBuilder.h"
#include "cppStructType.h"
#include "cppFunctionType.h"
#include "cppInstance.h"
#include "typeManager.h"
#include "interrogateType.h"
#include "interrogateFunction.h"
#include <type_traits>
static_assert(std::is_same<decltype(&CPPStructType::get_constructor), CPPFunctionGroup *(CPPStructType::*)() const>::value, "get_constructor");
static_assert(std::is_same<decltype(&CPPStructType::get_copy_constructor), CPPInstance *(CPPStructType::*)() const>::value, "get_copy_constructor");
static_assert(std::is_same<decltype(static_cast<bool (CPPStructType::*)() const>(&CPPStructType::is_default_constructible)), bool (CPPStructType::*)() const>::value, "is_default_constructible");
static_assert(std::is_same<decltype(static_cast<bool (CPPStructType::*)() const>(&CPPStructType::is_copy_constructible)), bool (CPPStructType::*)() const>::value, "is_copy_constructible");
static_assert((int)CPPFunctionType::F_constructor == 0x004 && (int)CPPFunctionType::F_copy_constructor == 0x200, "CPPFunctionType flags");
static_assert((int)CPPInstance::SC_inline == 0x010 && (int)CPPInstance::SC_defaulted == 0x4000 && (int)CPPInstance::SC_deleted == 0x8000, "CPPInstance storage classes");
static_assert((int)InterrogateFunction::F_constructor == 0x0100, "InterrogateFunction::F_constructor");
static_assert(std::is_same<decltype(InterrogateType::_constructors), std::vector<FunctionIndex> >::value, "_constructors");
static_assert(std::is_same<decltype(&CPPStructType::is_abstract), bool (CPPStructType::*)() const>::value, "is_abstract");
static_assert(V_published == 0, "V_published");
int main() { return 0; }
