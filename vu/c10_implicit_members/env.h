// Environment of the "implicit default / copy constructor" block of InterrogateBuilder::define_struct_type (skeletons of
// the objects the block touches; conformance.cpp checks the member signatures against the real headers).
#ifndef C10_ENV_H
#define C10_ENV_H
#include "vu_common.h"
#include <string>
#include <vector>
#include <algorithm>
#include "vstl_globals.h"
using std::find;
typedef int FunctionIndex;
enum CPPVisibility { V_published, V_public, V_protected, V_private, V_unknown };
class CPPScope; class CPPType { public: int _k; };
class CPPFunctionGroup { public: int _k; };
// ghost description of the class being defined
static bool vin_has_declared_ctor, vin_default_constructible, vin_has_declared_copy_ctor, vin_copy_constructible;
class CPPInstance;
static CPPInstance *g_declared_copy_ctor; static CPPFunctionGroup g_ctor_group;
class CPPStructType : public CPPType {
public:
  CPPFunctionGroup *get_constructor() const { return vin_has_declared_ctor ? &g_ctor_group : (CPPFunctionGroup *)0; }
  bool is_default_constructible() const { return vin_default_constructible; }
  CPPInstance *get_copy_constructor() const { return vin_has_declared_copy_ctor ? g_declared_copy_ctor : (CPPInstance *)0; }
  bool is_copy_constructible() const { return vin_copy_constructible; }
  bool is_abstract() const;
  std::string get_simple_name() const { return std::string("S"); }
  CPPScope *get_scope() const { return 0; }
};
class CPPParameterList { public: std::vector<CPPInstance *> _parameters; };
class CPPFunctionType : public CPPType { public:
  enum Flags { F_const_method = 0x001, F_operator_typecast = 0x002, F_constructor = 0x004, F_destructor = 0x008, F_method_pointer = 0x010, F_unary_op = 0x020, F_operator = 0x040, F_noexcept = 0x080, F_copy_constructor = 0x200 };
  CPPFunctionType(CPPType *ret, CPPParameterList *params, int flags) : _return_type(ret), _parameters(params), _flags(flags) {}
  CPPType *_return_type; CPPParameterList *_parameters; int _flags; };
class CPPIdentifier;
class CPPInstance { public:
  enum StorageClass { SC_static = 0x001, SC_extern = 0x002, SC_c_binding = 0x004, SC_virtual = 0x008, SC_inline = 0x010, SC_explicit = 0x020, SC_register = 0x040, SC_pure_virtual = 0x080, SC_volatile = 0x100, SC_mutable = 0x200, SC_constexpr = 0x400, SC_blocking = 0x800, SC_extension = 0x1000, SC_thread_local = 0x2000, SC_defaulted = 0x4000, SC_deleted = 0x8000 };
  CPPInstance(CPPType *type, const std::string &name) : _type(type), _storage_class(0), _vis(V_unknown) {}
  CPPInstance(CPPType *type, CPPIdentifier *ident) : _type(type), _storage_class(0), _vis(V_unknown) {}
  CPPType *_type; int _storage_class; CPPVisibility _vis; };
class TypeManager { public: static CPPType *get_void_type() { static CPPType t; return &t; } static CPPType *wrap_const_reference(CPPType *t) { static CPPType r; return &r; } };
class InterrogateFunction { public: enum Flags { F_global = 0x0001, F_virtual = 0x0002, F_method = 0x0004, F_typecast = 0x0008, F_getter = 0x0010, F_setter = 0x0020, F_unary_op = 0x0040, F_operator_typecast = 0x0080, F_constructor = 0x0100 }; };
class InterrogateType { public: typedef std::vector<FunctionIndex> Functions; Functions _constructors; };
#endif
