// VU c10_implicit_members: the block of InterrogateBuilder::define_struct_type that synthesises the implicit default and copy
// constructor of a class (R5).  C++ provides an implicit one exactly when the class declares none ([class.default.ctor],
// [class.copy.ctor]; an explicitly defaulted or deleted one is declared and goes the way of every declared member, with its
// own visibility); interrogate may add a published one only then, and only if the class can be constructed that way.
#include "env.h"
namespace builder {
// get_function (callee, replaced by its contract): registers the function and returns its index; the call is recorded
static int g_calls, g_default_calls, g_copy_calls; static CPPVisibility g_vis_default, g_vis_copy; static int g_sc_copy;
static FunctionIndex vin_index_default, vin_index_copy;
static FunctionIndex get_function(CPPInstance *function, std::string description, CPPStructType *struct_type, CPPScope *scope, int flags) {
  g_calls++;
  CPPFunctionType *ft = (CPPFunctionType *)function->_type;
  __CPROVER_assert((flags & InterrogateFunction::F_constructor) != 0 && (ft->_flags & CPPFunctionType::F_constructor) != 0, "C10.implicit_members: what is synthesised here is registered as a constructor");
  if (ft->_flags & CPPFunctionType::F_copy_constructor) { g_copy_calls++; g_vis_copy = function->_vis; g_sc_copy = function->_storage_class; __CPROVER_assert(ft->_parameters->_parameters.size() == 1, "C10.implicit_members: the copy constructor takes one parameter"); return vin_index_copy; }
  g_default_calls++; g_vis_default = function->_vis;
  __CPROVER_assert(ft->_parameters->_parameters.size() == 0, "C10.implicit_members: the default constructor takes no parameter");
  return vin_index_default;
}
//@block src/interrogate/interrogateBuilder.cxx "start=  // See if we need to generate an implicit default constructor." "end=  if (!cpptype->is_destructible()) {" "head=void vu_implicit_members(InterrogateType &itype, CPPStructType *cpptype)" include_end=0
// the guard of get_function that refuses constructors of abstract classes (block R5; the tail `return 1;` stands for "the
// function goes on and registers the function")
static bool vin_is_abstract;
//@block src/interrogate/interrogateBuilder.cxx "start=  function->_type = ftype;" start_ordinal=0 "end=  TypeIndex class_index = 0;" "head=int vu_abstract_guard(CPPInstance *function, CPPFunctionType *ftype, CPPStructType *struct_type, int flags)" include_end=0 "tail=return 1;"
}
using namespace builder;
bool CPPStructType::is_abstract() const { return builder::vin_is_abstract; }
void h_implicit_constructors() {
  static CPPStructType cls; static InterrogateType itype; static CPPInstance declared((CPPType *)0, std::string("S"));
  vin_has_declared_ctor = nondet_bool(); vin_default_constructible = nondet_bool(); vin_has_declared_copy_ctor = nondet_bool(); vin_copy_constructible = nondet_bool();
  declared._storage_class = nondet_int(); declared._vis = (CPPVisibility)(nondet_bool() ? V_protected : V_public); g_declared_copy_ctor = &declared;      // e.g. `protected: S(const S &) = default;`
  vin_index_default = nondet_int(); vin_index_copy = nondet_int(); __CPROVER_assume(vin_index_default != vin_index_copy);
  itype._constructors._n = 0; itype._constructors._trunc = false;
  g_calls = g_default_calls = g_copy_calls = 0;
  vu_implicit_members(itype, &cls);
  __CPROVER_assume(!itype._constructors._trunc);
  bool want_default = !vin_has_declared_ctor && vin_default_constructible;
  bool want_copy = !vin_has_declared_copy_ctor && vin_copy_constructible;
  OBL(g_default_calls == (want_default ? 1 : 0), "C10.implicit_members: a default constructor is synthesised exactly if the class declares no constructor and is default-constructible");
  OBL(g_copy_calls == (want_copy ? 1 : 0), "C10.implicit_members: a copy constructor is synthesised exactly if the class declares no copy constructor (an explicitly defaulted, deleted or non-public one is declared) and is copy-constructible");
  OBL(itype._constructors._n == (size_t)((want_default ? 1 : 0) + (want_copy ? 1 : 0)), "C10.implicit_members: exactly the synthesised constructors are added to the type's constructor list");
  VU_REACHED();
}

// ---- never a constructor for an abstract class: whatever flags the caller passes (declared constructors come with
// flags == 0, synthesised ones with F_constructor), a function whose TYPE says constructor is refused for an abstract class
void h_no_constructor_for_abstract_class() {
  static CPPStructType cls; static CPPType ret; static CPPParameterList pl;
  int vin_ftype_flags = nondet_int(), vin_flags = nondet_int(); bool vin_member = nondet_bool();
  CPPFunctionType ft(&ret, &pl, vin_ftype_flags);
  builder::vin_is_abstract = nondet_bool();
  static CPPInstance fn((CPPType *)0, std::string("S"));
  int r = builder::vu_abstract_guard(&fn, &ft, vin_member ? &cls : (CPPStructType *)0, vin_flags);
  bool is_ctor = (vin_ftype_flags & CPPFunctionType::F_constructor) != 0;
  OBL((r == 0) == (is_ctor && vin_member && builder::vin_is_abstract), "C10.get_function: a constructor (declared or synthesised) of an abstract class is never registered; every other function is");
  VU_REACHED();
}
