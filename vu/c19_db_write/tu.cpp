// VU c19_db_write: InterrogateDatabase::write.  main() of interrogate tests the stream it handed to write() (flush, fail());
// that test sees a failed write only if write() writes through that very stream object.  Contract: if any output of write()
// is lost, the caller's stream is in the failed state when write() returns.
#define private public
#define protected public
#define VSTL_OFSTREAM_MAY_FAIL 1
#include "vu_common.h"
//@headers src/dtoolbase src/interrogatedb
//@shadow config_interrogatedb.h indent.h
//@truncate interrogateDatabase.I from=src/interrogatedb/interrogateDatabase.I anchor="lookup_type_by_name(const"
#include "interrogateDatabase.h"
#include "interrogate_datafile.h"
#include <fstream>
#include "vstl_globals.h"
int InterrogateDatabase::_current_major_version = 3;
int InterrogateDatabase::_current_minor_version = 3;
std::string InterrogateComponent::_empty_string;
//@extract src/interrogatedb/interrogateType.cxx InterrogateType::InterrogateType ordinal=0
//@extract src/interrogatedb/interrogateFunction.cxx InterrogateFunction::InterrogateFunction ordinal=0
//@extract src/interrogatedb/interrogateDatabase.cxx InterrogateDatabase::InterrogateDatabase
//@extract src/interrogatedb/interrogate_datafile.cxx idf_output_string ordinal=1
// the record writers (c12_roundtrip): each inserts into the stream it is given
void InterrogateType::output(std::ostream &out) const { out << 1 << " "; }
void InterrogateFunction::output(std::ostream &out) const { out << 2 << " "; }
void InterrogateFunctionWrapper::output(std::ostream &out) const { out << 3 << " "; }
void InterrogateManifest::output(std::ostream &out) const { out << 4 << " "; }
void InterrogateElement::output(std::ostream &out) const { out << 5 << " "; }
void InterrogateMakeSeq::output(std::ostream &out) const { out << 6 << " "; }
//@extract src/interrogatedb/interrogateDatabase.cxx InterrogateDatabase::write

static InterrogateDatabase g_db; static InterrogateModuleDef g_def; static InterrogateFunction g_fn; static InterrogateType g_type;
void h_write_reports_through_the_callers_stream() {
  g_def.file_identifier = nondet_int(); g_def.library_name = "l"; g_def.library_hash_name = "h"; g_def.module_name = "m";
  if (nondet_bool()) g_db._function_map[3] = &g_fn;
  std::ofstream out;             // opened by the caller; every insertion or flush through its buffer may fail
  std::vstl_output_lost = false;
  g_db.write(out, &g_def);
  OBL(!std::vstl_output_lost || out.fail(), "C19.write: a write of the database that fails at any point leaves the caller's stream in the failed state (so that main() sees it and exits non-zero)");
  VU_REACHED();
}
