// VU c03_private_constant: the T_variable arm of CPPExpression::output (block R5).  Generated code is written from outside
// the class; a constant the class does not make public (protected or private) cannot be named there, so an expression that
// refers to one - an array bound, a template argument - is written with the constant's value instead of its name.
#define private public
#define protected public
#include "vu_common.h"
//@headers src/dtoolbase src/dtoolutil src/cppparser
//@shadow filename.h
//@hdrsubst cpp*.h except=cppDeclaration.h "from=(?m)^\s*virtual CPP\w+ \*as_\w+\(\);\s*$" to=
//@hdrsubst cpp*.h "from=\bvirtual\s+" to=
//@hdrinsert cppExpression.h after="Result evaluate() const;" text="void vu_variable_arm(std::ostream &out, int indent_level, CPPScope *scope) const;"
//@bison src/cppparser/cppBison.yxx cppBison.h
#include "dtoolbase.h"
#include "cppExpression.h"
#include "cppInstance.h"
#include "cppIdentifier.h"
#include "cppType.h"
class CPPConstType;
#include "cppBison.h"
#include "vstl_globals.h"

// ---- callees (replace form): writing the initializer (recursive call) and writing the name are recorded
static int g_value_written, g_name_written; static bool vin_type_is_const;
void CPPExpression::output(std::ostream &out, int indent_level, CPPScope *scope, bool complete) const { g_value_written++; }
void CPPIdentifier::output(std::ostream &out, CPPScope *scope) const { g_name_written++; }
static CPPConstType *vu_as_const_type(CPPType *t) { return vin_type_is_const ? (CPPConstType *)t : (CPPConstType *)0; }
CPPFile::CPPFile(const Filename &filename, const Filename &filename_as_referenced, Source source) : _source(source), _pragma_once(false) {}
CPPDeclaration::CPPDeclaration(const CPPFile &file, CPPAttributeList attr) : _file(file) { _vis = V_unknown; _template_scope = 0; _leading_comment = 0; }
//@extract src/cppparser/cppExpression.cxx CPPExpression::CPPExpression "sig=\bCPPExpression\(int value\)"
//@block src/cppparser/cppExpression.cxx "start=    // We can just refer to the variable by name, except if it's a private" "end=    _u._variable->_ident->output(out, scope);" "head=void CPPExpression::vu_variable_arm(std::ostream &out, int indent_level, CPPScope *scope) const { switch (0) { default:" "tail=}}" "subst1=@_u\._variable->_type->as_const_type\(\)@vu_as_const_type(_u._variable->_type)@"

void h_variable_reference_is_written() {
  static CPPExpression e(0), init(0);
  CPPInstance *var = VU_NEW(CPPInstance);
  int vin_vis = nondet_int(); __CPROVER_assume(vin_vis >= V_published && vin_vis <= V_private);
  bool vin_has_type = nondet_bool(), vin_has_init = nondet_bool(), vin_constexpr = nondet_bool(); vin_type_is_const = nondet_bool();
  var->_vis = (CPPVisibility)vin_vis; var->_type = vin_has_type ? (CPPType *)vu_alloc(8) : (CPPType *)0; var->_initializer = vin_has_init ? &init : (CPPExpression *)0;
  var->_storage_class = (nondet_int() & ~CPPInstance::SC_constexpr) | (vin_constexpr ? CPPInstance::SC_constexpr : 0);
  var->_ident = (CPPIdentifier *)vu_alloc(8);
  e._type = CPPExpression::T_variable; e._u._variable = var;
  g_value_written = g_name_written = 0;
  static std::ostream out;
  e.vu_variable_arm(out, 0, (CPPScope *)0);
  bool by_value = vin_vis > V_public && vin_has_type && vin_has_init && (vin_constexpr || vin_type_is_const);
  OBL(g_value_written == (by_value ? 1 : 0) && g_name_written == (by_value ? 0 : 1), "C03.output: a constant that is not public (protected or private) and has a known value is written by its value, every other variable by its name; never both, never neither");
  VU_REACHED();
}
