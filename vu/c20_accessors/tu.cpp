// VU c20_accessors: every positional accessor and enumeration count of the interrogatedb records
// and of InterrogateDatabase, over the abstract vector (symbolic size 0..2^31-1): P mode.
#define private public
#define protected public
//@headers src/dtoolbase src/interrogatedb
//@shadow config_interrogatedb.h indent.h
//@truncate interrogateDatabase.I from=src/interrogatedb/interrogateDatabase.I anchor="lookup_type_by_name(const"
#include "vu_common.h"
#include "interrogateDatabase.h"

// the six positional accessors and counts of the database itself (the .I accessors come with the headers)
//@extract src/interrogatedb/interrogateDatabase.cxx InterrogateDatabase::get_num_global_types
//@extract src/interrogatedb/interrogateDatabase.cxx InterrogateDatabase::get_global_type
//@extract src/interrogatedb/interrogateDatabase.cxx InterrogateDatabase::get_num_all_types
//@extract src/interrogatedb/interrogateDatabase.cxx InterrogateDatabase::get_all_type
//@extract src/interrogatedb/interrogateDatabase.cxx InterrogateDatabase::get_num_global_functions
//@extract src/interrogatedb/interrogateDatabase.cxx InterrogateDatabase::get_global_function
//@extract src/interrogatedb/interrogateDatabase.cxx InterrogateDatabase::get_num_all_functions
//@extract src/interrogatedb/interrogateDatabase.cxx InterrogateDatabase::get_all_function
//@extract src/interrogatedb/interrogateDatabase.cxx InterrogateDatabase::get_num_global_manifests
//@extract src/interrogatedb/interrogateDatabase.cxx InterrogateDatabase::get_global_manifest
//@extract src/interrogatedb/interrogateDatabase.cxx InterrogateDatabase::get_num_global_elements
//@extract src/interrogatedb/interrogateDatabase.cxx InterrogateDatabase::get_global_element

std::string InterrogateComponent::_empty_string;

// ---- callee contract (replace form): load_latest() may change the database arbitrarily but leaves
// it well formed and with no pending request.  The accessors' postconditions are stated over the
// state *after* the call, so they hold whatever load_latest did.
static InterrogateDatabase *g_db;
static void havoc_db(InterrogateDatabase *db) {
  db->_global_types.vstl_make_abstract(nondet_size_t());
  db->_all_types.vstl_make_abstract(nondet_size_t());
  db->_global_functions.vstl_make_abstract(nondet_size_t());
  db->_all_functions.vstl_make_abstract(nondet_size_t());
  db->_global_manifests.vstl_make_abstract(nondet_size_t());
  db->_global_elements.vstl_make_abstract(nondet_size_t());
}
void InterrogateDatabase::load_latest() {
  havoc_db(this);
  _requests._n = 0;
}

static InterrogateDatabase *make_db() {
  InterrogateDatabase *db = VU_NEW(InterrogateDatabase);
  havoc_db(db);
  db->_requests.vstl_make_abstract(nondet_size_t());   // pending requests or not: both
  return db;
}
static InterrogateType *make_type() {
  InterrogateType *t = VU_NEW(InterrogateType);
  t->_alt_names.vstl_make_abstract(nondet_size_t());
  t->_constructors.vstl_make_abstract(nondet_size_t());
  t->_elements.vstl_make_abstract(nondet_size_t());
  t->_methods.vstl_make_abstract(nondet_size_t());
  t->_casts.vstl_make_abstract(nondet_size_t());
  t->_make_seqs.vstl_make_abstract(nondet_size_t());
  t->_derivations.vstl_make_abstract(nondet_size_t());
  t->_enum_values.vstl_make_abstract(nondet_size_t());
  t->_nested_types.vstl_make_abstract(nondet_size_t());
  return t;
}
static InterrogateFunction *make_function() {
  InterrogateFunction *f = VU_NEW(InterrogateFunction);
  f->_alt_names.vstl_make_abstract(nondet_size_t());
  f->_c_wrappers.vstl_make_abstract(nondet_size_t());
  f->_python_wrappers.vstl_make_abstract(nondet_size_t());
  return f;
}
static InterrogateFunctionWrapper *make_wrapper() {
  InterrogateFunctionWrapper *w = VU_NEW(InterrogateFunctionWrapper);
  w->_alt_names.vstl_make_abstract(nondet_size_t());
  w->_parameters.vstl_make_abstract(nondet_size_t());
  return w;
}
static bool str_wf(const std::string &s) { return !s._trunc && s._n <= std::string::CAP && s._d[s._n] == 0; }

#define INR(o, VEC) (vin_n >= 0 && (size_t)vin_n < (o)->VEC._n)
// the entry at the arbitrary ghost index (see vstl/vector): proving "position == ghost index => result
// is the ghost entry" for an arbitrary ghost index proves it for every position
#define GHOST(o, VEC) ((o)->VEC._gi == (size_t)vin_n)
#define ENTRY(o, VEC) ((o)->VEC._gv)

// scalar-valued positional accessor
#define ACC(H, MK, CLS, RT, FN, VEC, PROJ, NEUTRAL) \
void H() { CLS *o = MK(); int vin_n = nondet_int(); \
  RT r = o->FN(vin_n); \
  if (INR(o, VEC)) { OBL(!GHOST(o, VEC) || r == (RT)(ENTRY(o, VEC) PROJ), "C20." #CLS "::" #FN ": a position in [0,count) returns exactly that entry"); } \
  else { OBL(r == (NEUTRAL), "C20." #CLS "::" #FN ": a position outside [0,count) returns the neutral value"); } \
  VU_REACHED(); }

// flag-valued positional accessor
#define ACCF(H, MK, CLS, FN, VEC, FLD, MASK) \
void H() { CLS *o = MK(); int vin_n = nondet_int(); \
  bool r = o->FN(vin_n); \
  if (INR(o, VEC)) { OBL(!GHOST(o, VEC) || r == ((ENTRY(o, VEC).FLD & (MASK)) != 0), "C20." #CLS "::" #FN ": a position in [0,count) returns exactly that entry's flag"); } \
  else { OBL(r == false, "C20." #CLS "::" #FN ": a position outside [0,count) returns false"); } \
  VU_REACHED(); }

// string-valued positional accessor (R2: returned by value)
#define ACCS(H, MK, CLS, FN, VEC, PROJ) \
void H() { CLS *o = MK(); int vin_n = nondet_int(); \
  __CPROVER_assume(InterrogateComponent::_empty_string._n == 0); \
  __CPROVER_assume(str_wf(ENTRY(o, VEC) PROJ)); \
  std::string r = o->FN(vin_n); \
  if (INR(o, VEC)) { OBL(!GHOST(o, VEC) || r == (ENTRY(o, VEC) PROJ), "C20." #CLS "::" #FN ": a position in [0,count) returns exactly that entry's string"); } \
  else { OBL(r._n == 0, "C20." #CLS "::" #FN ": a position outside [0,count) returns the empty string"); } \
  VU_REACHED(); }

// enumeration count == number of entries the accessor returns
#define CNT(H, MK, CLS, FN, VEC) \
void H() { CLS *o = MK(); \
  int r = o->FN(); \
  OBL(r >= 0 && (size_t)r == o->VEC._n, "C20." #CLS "::" #FN ": count equals the number of entries its accessor returns"); \
  VU_REACHED(); }

ACCS(h_comp_get_alt_name, make_type, InterrogateType, get_alt_name, _alt_names, )
CNT(h_comp_get_num_alt_names, make_type, InterrogateType, get_num_alt_names, _alt_names)

ACC(h_func_get_c_wrapper, make_function, InterrogateFunction, int, get_c_wrapper, _c_wrappers, , 0)
ACC(h_func_get_python_wrapper, make_function, InterrogateFunction, int, get_python_wrapper, _python_wrappers, , 0)
CNT(h_func_number_of_c_wrappers, make_function, InterrogateFunction, number_of_c_wrappers, _c_wrappers)
CNT(h_func_number_of_python_wrappers, make_function, InterrogateFunction, number_of_python_wrappers, _python_wrappers)

ACC(h_wrap_parameter_get_type, make_wrapper, InterrogateFunctionWrapper, int, parameter_get_type, _parameters, ._type, 0)
ACCF(h_wrap_parameter_has_name, make_wrapper, InterrogateFunctionWrapper, parameter_has_name, _parameters, _parameter_flags, InterrogateFunctionWrapper::PF_has_name)
ACCS(h_wrap_parameter_get_name, make_wrapper, InterrogateFunctionWrapper, parameter_get_name, _parameters, ._name)
ACCF(h_wrap_parameter_is_this, make_wrapper, InterrogateFunctionWrapper, parameter_is_this, _parameters, _parameter_flags, InterrogateFunctionWrapper::PF_is_this)
ACCF(h_wrap_parameter_is_optional, make_wrapper, InterrogateFunctionWrapper, parameter_is_optional, _parameters, _parameter_flags, InterrogateFunctionWrapper::PF_is_optional)
CNT(h_wrap_number_of_parameters, make_wrapper, InterrogateFunctionWrapper, number_of_parameters, _parameters)

ACCS(h_type_get_enum_value_name, make_type, InterrogateType, get_enum_value_name, _enum_values, ._name)
ACCS(h_type_get_enum_value_scoped_name, make_type, InterrogateType, get_enum_value_scoped_name, _enum_values, ._scoped_name)
ACCS(h_type_get_enum_value_comment, make_type, InterrogateType, get_enum_value_comment, _enum_values, ._comment)
ACC(h_type_get_enum_value, make_type, InterrogateType, int, get_enum_value, _enum_values, ._value, 0)
CNT(h_type_number_of_enum_values, make_type, InterrogateType, number_of_enum_values, _enum_values)
ACC(h_type_get_constructor, make_type, InterrogateType, int, get_constructor, _constructors, , 0)
CNT(h_type_number_of_constructors, make_type, InterrogateType, number_of_constructors, _constructors)
ACC(h_type_get_element, make_type, InterrogateType, int, get_element, _elements, , 0)
CNT(h_type_number_of_elements, make_type, InterrogateType, number_of_elements, _elements)
ACC(h_type_get_method, make_type, InterrogateType, int, get_method, _methods, , 0)
CNT(h_type_number_of_methods, make_type, InterrogateType, number_of_methods, _methods)
ACC(h_type_get_make_seq, make_type, InterrogateType, int, get_make_seq, _make_seqs, , 0)
CNT(h_type_number_of_make_seqs, make_type, InterrogateType, number_of_make_seqs, _make_seqs)
ACC(h_type_get_cast, make_type, InterrogateType, int, get_cast, _casts, , 0)
CNT(h_type_number_of_casts, make_type, InterrogateType, number_of_casts, _casts)
ACC(h_type_get_derivation, make_type, InterrogateType, int, get_derivation, _derivations, ._base, 0)
ACCF(h_type_derivation_has_upcast, make_type, InterrogateType, derivation_has_upcast, _derivations, _flags, InterrogateType::DF_upcast)
ACC(h_type_derivation_get_upcast, make_type, InterrogateType, int, derivation_get_upcast, _derivations, ._upcast, 0)
ACCF(h_type_derivation_downcast_is_impossible, make_type, InterrogateType, derivation_downcast_is_impossible, _derivations, _flags, InterrogateType::DF_downcast_impossible)
ACCF(h_type_derivation_has_downcast, make_type, InterrogateType, derivation_has_downcast, _derivations, _flags, InterrogateType::DF_downcast)
ACC(h_type_derivation_get_downcast, make_type, InterrogateType, int, derivation_get_downcast, _derivations, ._downcast, 0)
CNT(h_type_number_of_derivations, make_type, InterrogateType, number_of_derivations, _derivations)
ACC(h_type_get_nested_type, make_type, InterrogateType, int, get_nested_type, _nested_types, , 0)
CNT(h_type_number_of_nested_types, make_type, InterrogateType, number_of_nested_types, _nested_types)

ACC(h_db_get_global_type, make_db, InterrogateDatabase, int, get_global_type, _global_types, , 0)
CNT(h_db_get_num_global_types, make_db, InterrogateDatabase, get_num_global_types, _global_types)
ACC(h_db_get_all_type, make_db, InterrogateDatabase, int, get_all_type, _all_types, , 0)
CNT(h_db_get_num_all_types, make_db, InterrogateDatabase, get_num_all_types, _all_types)
ACC(h_db_get_global_function, make_db, InterrogateDatabase, int, get_global_function, _global_functions, , 0)
CNT(h_db_get_num_global_functions, make_db, InterrogateDatabase, get_num_global_functions, _global_functions)
ACC(h_db_get_all_function, make_db, InterrogateDatabase, int, get_all_function, _all_functions, , 0)
CNT(h_db_get_num_all_functions, make_db, InterrogateDatabase, get_num_all_functions, _all_functions)
ACC(h_db_get_global_manifest, make_db, InterrogateDatabase, int, get_global_manifest, _global_manifests, , 0)
CNT(h_db_get_num_global_manifests, make_db, InterrogateDatabase, get_num_global_manifests, _global_manifests)
ACC(h_db_get_global_element, make_db, InterrogateDatabase, int, get_global_element, _global_elements, , 0)
CNT(h_db_get_num_global_elements, make_db, InterrogateDatabase, get_num_global_elements, _global_elements)
