// VU c20_db_index: the index getters of InterrogateDatabase, get_fptr, find_module,
// binary_search_module.  Abstract containers of any size: P mode.
#define private public
#define protected public
#include "vu_common.h"
struct InterrogateModuleDef;
class InterrogateFunction;
int __CPROVER_uninterpreted_first_index(size_t i);
int __CPROVER_uninterpreted_next_index(size_t i);
int __CPROVER_uninterpreted_num_fptrs(size_t i);
inline void vstl_fresh_elem(size_t i, InterrogateModuleDef *&v);
inline void vstl_fresh_value(InterrogateFunction *&v);
//@headers src/dtoolbase src/interrogatedb
//@shadow config_interrogatedb.h indent.h
//@truncate interrogateDatabase.I from=src/interrogatedb/interrogateDatabase.I anchor="lookup_type_by_name(const"
//@hdrinsert interrogateDatabase.h after="int binary_search_module(int begin, int end, FunctionIndex function);" text="int binary_search_module__body(int begin, int end, FunctionIndex function);"
#include "interrogateDatabase.h"

// Module table model: entry i of _modules is a module definition whose index range is a function of i.
static void *g_fptr_table[4];
inline void vstl_fresh_elem(size_t i, InterrogateModuleDef *&v) {
  v = VU_NEW(InterrogateModuleDef);
  v->first_index = __CPROVER_uninterpreted_first_index(i);
  v->next_index = __CPROVER_uninterpreted_next_index(i);
  v->num_fptrs = __CPROVER_uninterpreted_num_fptrs(i);
  __CPROVER_assume(v->num_fptrs <= 4);          // the table object below has 4 slots; see harness
  v->fptrs = g_fptr_table;
}
inline void vstl_fresh_value(InterrogateFunction *&v) { v = VU_NEW(InterrogateFunction); }

//@extract src/interrogatedb/interrogateType.cxx InterrogateType::InterrogateType ordinal=0
//@extract src/interrogatedb/interrogateFunction.cxx InterrogateFunction::InterrogateFunction ordinal=0
//@extract src/interrogatedb/interrogateDatabase.cxx InterrogateDatabase::InterrogateDatabase
//@extract src/interrogatedb/interrogateDatabase.cxx InterrogateDatabase::get_type
//@extract src/interrogatedb/interrogateDatabase.cxx InterrogateDatabase::get_function
//@extract src/interrogatedb/interrogateDatabase.cxx InterrogateDatabase::get_wrapper
//@extract src/interrogatedb/interrogateDatabase.cxx InterrogateDatabase::get_manifest
//@extract src/interrogatedb/interrogateDatabase.cxx InterrogateDatabase::get_element
//@extract src/interrogatedb/interrogateDatabase.cxx InterrogateDatabase::get_make_seq
//@extract src/interrogatedb/interrogateDatabase.cxx InterrogateDatabase::get_fptr
//@extract src/interrogatedb/interrogateDatabase.cxx InterrogateDatabase::find_module
//@extract src/interrogatedb/interrogateDatabase.cxx InterrogateDatabase::binary_search_module rename=__body

std::string InterrogateComponent::_empty_string;

// ---------------------------------------------------------------- callee contracts (replace form)
void InterrogateDatabase::load_latest() {
  // may load anything: entries may appear, records may change; no request stays pending
  _requests._n = 0;
  _type_map._gpresent = nondet_bool();
  _function_map._gpresent = nondet_bool();
  _wrapper_map._gpresent = nondet_bool();
  _manifest_map._gpresent = nondet_bool();
  _element_map._gpresent = nondet_bool();
  _make_seq_map._gpresent = nondet_bool();
}

// ghost state of the binary_search_module contract
static int g_k;                       // arbitrary module position: the universal quantifier of the postcondition
static int g_outer_begin, g_outer_end;
static bool g_in_body;
#define FIRST(i) __CPROVER_uninterpreted_first_index((size_t)(i))
// precondition "modules sorted by first_index" instantiated at a pair of positions
#define SORTED(a, b) (((a) <= (b)) ? FIRST(a) <= FIRST(b) : FIRST(b) <= FIRST(a))

// recursive call inside the body -> contract in replace form + measure obligation
int InterrogateDatabase::binary_search_module(int begin, int end, FunctionIndex function) {
  if (g_in_body) {
    OBL(0 <= begin && begin < end && (size_t)end <= _modules._n, "C20.binary_search_module: recursive call satisfies the precondition 0 <= begin < end <= size");
    OBL(g_outer_begin <= begin && end <= g_outer_end, "C20.binary_search_module: recursive call stays inside the caller's range");
    OBL(end - begin < g_outer_end - g_outer_begin, "C20.binary_search_module: measure end-begin strictly decreases at each recursive call (bounded time)");
  }
  int r = nondet_int();
  __CPROVER_assume(begin <= r && r < end);
  __CPROVER_assume(r > begin ? FIRST(r) <= function : true);
  __CPROVER_assume((g_k > r && g_k < end) ? FIRST(g_k) > function : true);
  return r;
}

static InterrogateDatabase g_db;     // a typed object (a malloc'ed byte array of this size is too heavy for the back end)
static InterrogateFunction g_fn;
static InterrogateDatabase *make_db() {
  InterrogateDatabase *db = &g_db;
  db->_error_flag = nondet_bool(); db->_next_index = nondet_int(); db->_lookups_fresh = nondet_int();
  db->_requests.vstl_make_abstract(nondet_size_t());
  db->_modules.vstl_make_abstract(nondet_size_t());
  db->_modules._gi = (size_t)-1;      // every entry comes from the index-determined model above
  db->_type_map.vstl_make_abstract();
  db->_function_map.vstl_make_abstract();
  db->_wrapper_map.vstl_make_abstract();
  db->_manifest_map.vstl_make_abstract();
  db->_element_map.vstl_make_abstract();
  db->_make_seq_map.vstl_make_abstract();
  db->_type_map._gk = nondet_int(); db->_type_map._gentry.first = db->_type_map._gk; db->_type_map._gpresent = nondet_bool();
  db->_function_map._gk = nondet_int(); db->_function_map._gentry.first = db->_function_map._gk; db->_function_map._gpresent = nondet_bool();
  db->_wrapper_map._gk = nondet_int(); db->_wrapper_map._gentry.first = db->_wrapper_map._gk; db->_wrapper_map._gpresent = nondet_bool();
  db->_manifest_map._gk = nondet_int(); db->_manifest_map._gentry.first = db->_manifest_map._gk; db->_manifest_map._gpresent = nondet_bool();
  db->_element_map._gk = nondet_int(); db->_element_map._gentry.first = db->_element_map._gk; db->_element_map._gpresent = nondet_bool();
  db->_make_seq_map._gk = nondet_int(); db->_make_seq_map._gentry.first = db->_make_seq_map._gk; db->_make_seq_map._gpresent = nondet_bool();
  db->_function_map._gentry.second = &g_fn;
  return db;
}

#define GETTER(H, CLS, FN, MAP, DEREF, NEUTRAL_COND) \
void H() { InterrogateDatabase *db = make_db(); int vin_index = nondet_int(); \
  const CLS &r = db->FN(vin_index); \
  if (db->MAP._gk == vin_index) { \
    if (db->MAP._gpresent) { OBL(&r == DEREF(db->MAP._gentry.second), "C20.InterrogateDatabase::" #FN ": an index that is in the database returns exactly its record"); } \
    else { OBL(&r != DEREF(db->MAP._gentry.second), "C20.InterrogateDatabase::" #FN ": an index that is not in the database does not return some other entry's record"); \
           OBL(NEUTRAL_COND, "C20.InterrogateDatabase::" #FN ": an index that is not in the database returns a default (neutral) record"); } \
  } \
  VU_REACHED(); }
#define ADDR(x) (&(x))
#define PTR(x) (x)
#define COMP_NEUTRAL (r._name._n == 0 && r._alt_names._n == 0 && r._def == 0)

GETTER(h_get_type, InterrogateType, get_type, _type_map, ADDR,
  COMP_NEUTRAL && r._flags == 0 && r._outer_class == 0 && r._wrapped_type == 0 && r._destructor == 0 && r._scoped_name._n == 0 && r._true_name._n == 0 && r._comment._n == 0 &&
  r._constructors._n == 0 && r._elements._n == 0 && r._methods._n == 0 && r._casts._n == 0 && r._make_seqs._n == 0 && r._derivations._n == 0 && r._enum_values._n == 0 && r._nested_types._n == 0)
GETTER(h_get_function, InterrogateFunction, get_function, _function_map, PTR,
  COMP_NEUTRAL && r._flags == 0 && r._class == 0 && r._scoped_name._n == 0 && r._comment._n == 0 && r._prototype._n == 0 && r._c_wrappers._n == 0 && r._python_wrappers._n == 0)
GETTER(h_get_wrapper, InterrogateFunctionWrapper, get_wrapper, _wrapper_map, ADDR,
  COMP_NEUTRAL && r._flags == 0 && r._function == 0 && r._return_type == 0 && r._return_value_destructor == 0 && r._unique_name._n == 0 && r._comment._n == 0 && r._parameters._n == 0)
GETTER(h_get_manifest, InterrogateManifest, get_manifest, _manifest_map, ADDR,
  COMP_NEUTRAL && r._flags == 0 && r._int_value == 0 && r._type == 0 && r._getter == 0 && r._definition._n == 0)
GETTER(h_get_element, InterrogateElement, get_element, _element_map, ADDR,
  COMP_NEUTRAL && r._flags == 0 && r._type == 0 && r._getter == 0 && r._setter == 0 && r._has_function == 0 && r._clear_function == 0 && r._del_function == 0 &&
  r._insert_function == 0 && r._getkey_function == 0 && r._length_function == 0 && r._scoped_name._n == 0 && r._comment._n == 0)
GETTER(h_get_make_seq, InterrogateMakeSeq, get_make_seq, _make_seq_map, ADDR,
  COMP_NEUTRAL && r._length_getter == 0 && r._element_getter == 0 && r._scoped_name._n == 0 && r._comment._n == 0)

// ---- binary_search_module: one step of the recursion against the contract above
void h_binary_search_module() {
  InterrogateDatabase *db = make_db();
  int vin_begin = nondet_int(), vin_end = nondet_int(), vin_function = nondet_int();
  g_k = nondet_int();
  __CPROVER_assume(0 <= vin_begin && vin_begin < vin_end && (size_t)vin_end <= db->_modules._n);
  __CPROVER_assume(vin_begin <= g_k && g_k < vin_end);
  g_outer_begin = vin_begin; g_outer_end = vin_end; g_in_body = true;
  int mid = vin_begin + (vin_end - vin_begin) / 2;      // ghost: only to instantiate "sorted" at the probed position
  __CPROVER_assume(SORTED(mid, g_k));
  int r = db->binary_search_module__body(vin_begin, vin_end, vin_function);
  OBL(vin_begin <= r && r < vin_end, "C20.binary_search_module: result lies in [begin,end)");
  __CPROVER_assume(SORTED(r, g_k) && SORTED(mid, r));
  OBL(r > vin_begin ? FIRST(r) <= vin_function : true, "C20.binary_search_module: a result above begin is a module that starts at or before the index");
  OBL((g_k > r) ? FIRST(g_k) > vin_function : true, "C20.binary_search_module: every module after the result starts after the index (result is the last candidate)");
  VU_REACHED();
}

// ---- find_module / get_fptr against binary_search_module's contract
void h_find_module() {
  InterrogateDatabase *db = make_db();
  int vin_wrapper = nondet_int();
  g_in_body = false; g_k = nondet_int();
  InterrogateModuleDef *def = 0; int module_index = nondet_int();
  bool r = db->find_module(vin_wrapper, def, module_index);
  if (r) {
    OBL(def != 0, "C20.find_module: success yields a module definition");
    OBL(vin_wrapper < def->next_index, "C20.find_module: success means the index is below the module's next_index");
    OBL(module_index == vin_wrapper - def->first_index, "C20.find_module: module_index is the offset of the index in the module");
  }
  OBL(db->_modules._n != 0 || !r, "C20.find_module: no modules, no success");
  VU_REACHED();
}
void h_get_fptr() {
  InterrogateDatabase *db = make_db();
  int vin_wrapper = nondet_int();
  g_in_body = false; g_k = nondet_int();
  void *r = db->get_fptr(vin_wrapper);
  // memory safety of fptrs[module_index] is the obligation here: it is checked by --pointer-check/--bounds-check
  OBL(db->_modules._n != 0 || r == 0, "C20.get_fptr: no modules, null pointer");
  VU_REACHED();
}
