"""Native replay for VU c20_db_index (get_fptr / find_module): a module with a function-pointer table embedded in a larger
array of sentinels is registered through the real C interface; an index outside the module must give a null pointer."""
import os, sys
sys.path.insert(0, os.path.join(os.path.dirname(os.path.realpath(__file__)), "..", "..", "lib"))
import native

DRIVER = r'''
#include "interrogate_request.h"
#include "interrogate_interface.h"
#include <stdio.h>
#include <stdlib.h>
static void *store[96];
static InterrogateModuleDef def = { 0, "lib", "LIBH", "mod", nullptr, nullptr, 0, store + 48, 4, 0, 4 };
int main(int argc, char **argv) {
  for (int i = 0; i < 96; i++) store[i] = (void *)&store[i];
  interrogate_request_module(&def);                 // the module gets indices [first, first+4)
  int bad = 0;
  for (int a = 1; a < argc; a++) {
    long w = strtol(argv[a], nullptr, 10);
    bool in_range = w >= def.first_index && w < def.next_index;
    void *p = interrogate_wrapper_pointer((int)w); bool has = interrogate_wrapper_has_pointer((int)w);
    printf("wrapper %ld (module range [%d,%d)): has_pointer=%d pointer=%p\n", w, def.first_index, def.next_index, (int)has, p);
    if (!in_range && (p != nullptr || has)) bad = 1;
  }
  return bad;
}
'''


def replay(ctx):
    if ctx["entry"] not in ("h_get_fptr", "h_find_module"):
        return {"reproduced": False, "note": "no replay template for %s" % ctx["entry"]}
    nb = native.NativeBuild(targets=("interrogatedb",))
    try:
        if not nb.build():
            return {"reproduced": False, "error": "native build failed", "log": nb.log[-1500:]}
        exe = nb.compile_driver(DRIVER)
        if not exe:
            return {"reproduced": False, "error": "driver did not compile", "log": nb.log[-1500:]}
        try:
            w = int(str(ctx["vin"].get("vin_wrapper", "0")).rstrip("ul"))
        except Exception:
            w = 0
        args = [str(x) for x in (w, 0, -1, -2, 5, 6)]
        rc, out = native.sh(["timeout", "20", exe] + args)
        return {"reproduced": rc != 0, "cmd": "interrogate_request_module(4 fptrs); interrogate_wrapper_pointer(%s)" % ", ".join(args), "observed": native.describe_exit(rc), "output": out[-600:]}
    finally:
        nb.close()
