// VU c04_command_file: how InterrogateBuilder::read_command_file splits one line of a command (.N) file (block R5): the
// exclusions forcetype / ignoretype / ignoreinvolved ... act on the parameter exactly as it stands in the file, without
// the comment, the blanks around it and the line end - also the carriage return of a file with CRLF line ends.
#include "vu_common.h"
#include <string>
#include <ctype.h>
#include "vstl_globals.h"
using std::string;
static int g_calls; static std::string g_command, g_params;
static void do_command(const std::string &command, const std::string &params) { g_calls++; g_command = command; g_params = params; }
//@block src/interrogate/interrogateBuilder.cxx "start=    // Strip out the comment." "end=      do_command(command, params);" "head=static void vu_command_line(std::string line)" "tail=}"
static bool is_sp(int c) { return c == ' ' || c == '\t' || c == '\n' || c == '\v' || c == '\f' || c == '\r'; }
void h_command_line() {
  std::string vin_line; vin_line._trunc = false; vin_line._n = nondet_size_t(); __CPROVER_assume(vin_line._n <= std::string::CAP);
  for (size_t i = 0; i < std::string::CAP; i++) { char c = nondet_char(); vin_line._d[i] = (i < vin_line._n) ? c : (char)0; if (i < vin_line._n) __CPROVER_assume(c != 0 && c != '\n'); }
  vin_line._d[std::string::CAP] = 0;
  g_calls = 0;
  vu_command_line(vin_line);
  // reference splitting, straight from the format: text up to the first '#'; first word; the rest without surrounding blanks
  size_t n = vin_line._n, end = n;
  for (size_t i = 0; i < std::string::CAP; i++) if (i < n && end == n && vin_line._d[i] == '#') end = i;
  size_t p = 0; for (size_t i = 0; i < std::string::CAP; i++) if (p == i && i < end && is_sp((unsigned char)vin_line._d[i])) p = i + 1;
  size_t q = p; for (size_t i = 0; i < std::string::CAP; i++) if (i >= p && q == i && i < end && !is_sp((unsigned char)vin_line._d[i])) q = i + 1;
  size_t a = q; for (size_t i = 0; i < std::string::CAP; i++) if (i >= q && a == i && i < end && is_sp((unsigned char)vin_line._d[i])) a = i + 1;
  size_t b = end; for (size_t i = std::string::CAP; i > 0; i--) if (b == i && i > a && i <= end && is_sp((unsigned char)vin_line._d[i - 1])) b = i - 1;
  if (p >= end) { OBL(g_calls == 0, "C04.command_file: a blank or comment-only line is no command"); }
  else {
    __CPROVER_assume(!g_command._trunc && !g_params._trunc);
    bool cmd_ok = g_calls == 1 && g_command._n == q - p; for (size_t i = 0; i < std::string::CAP; i++) if (i >= p && i < q && g_command._d[i - p] != vin_line._d[i]) cmd_ok = false;
    OBL(cmd_ok, "C04.command_file: the command is the first word of the line");
    bool par_ok = g_params._n == (b > a ? b - a : 0); for (size_t i = 0; i < std::string::CAP; i++) if (i >= a && i < b && g_params._d[i - a] != vin_line._d[i]) par_ok = false;
    OBL(par_ok, "C04.command_file: the parameter is the rest of the line without the comment and without the blanks around it, whatever kind of blank (a carriage return of a CRLF file included): `ignoreinvolved Secret\\r` excludes Secret");
  }
  VU_REACHED();
}
