// VU c12_roundtrip: idf_output_string/idf_input_string, idf_output_vector/idf_input_vector and the
// output()/input() pairs of every record class over the token-level stream model (vstl/iostream).
// Lemma per class: x.output(out); y.input(in) => every persistent member of y equals that of x and the
// stream is consumed.  Member lists generated from the headers.  B mode (strings/lists capped).
#define private public
#define protected public
#include "vu_common.h"
//@headers src/dtoolbase src/interrogatedb
//@shadow config_interrogatedb.h indent.h
//@truncate interrogateDatabase.I from=src/interrogatedb/interrogateDatabase.I anchor="lookup_type_by_name(const"
//@emptyheader interrogate_datafile.I
//@hdrsubst interrogate_datafile.h "from=template<class Element>\s*void idf_(output|input)_vector\([^;]*;" to=
//@generate gen.py
#include "interrogateDatabase.h"
#include "interrogate_datafile.h"
#include "records_gen.h"
#include <string.h>

int InterrogateDatabase::_file_major_version = 0;
int InterrogateDatabase::_file_minor_version = 0;
//@extract src/interrogatedb/interrogateDatabase.cxx InterrogateDatabase::get_file_minor_version

//@extract src/interrogatedb/interrogate_datafile.cxx idf_output_string ordinal=0
//@extract src/interrogatedb/interrogate_datafile.cxx idf_input_string ordinal=0
//@extract src/interrogatedb/interrogate_datafile.cxx idf_output_string ordinal=1
//@extract src/interrogatedb/interrogate_datafile.cxx idf_input_string ordinal=1
//@extract src/interrogatedb/interrogate_datafile.I idf_output_vector mono=Element=int|InterrogateType::Derivation|InterrogateType::EnumValue|InterrogateFunctionWrapper::Parameter
//@extract src/interrogatedb/interrogate_datafile.I idf_input_vector mono=Element=int|InterrogateType::Derivation|InterrogateType::EnumValue|InterrogateFunctionWrapper::Parameter

//@extract src/interrogatedb/interrogateType.cxx InterrogateType::InterrogateType ordinal=0
//@extract src/interrogatedb/interrogateFunction.cxx InterrogateFunction::InterrogateFunction ordinal=0
//@extract src/interrogatedb/interrogateComponent.cxx InterrogateComponent::output
//@extract src/interrogatedb/interrogateComponent.cxx InterrogateComponent::input
//@extract src/interrogatedb/interrogateType.cxx InterrogateType::Derivation::output
//@extract src/interrogatedb/interrogateType.cxx InterrogateType::Derivation::input
//@extract src/interrogatedb/interrogateType.cxx InterrogateType::EnumValue::output
//@extract src/interrogatedb/interrogateType.cxx InterrogateType::EnumValue::input
//@extract src/interrogatedb/interrogateType.cxx InterrogateType::output
//@extract src/interrogatedb/interrogateType.cxx InterrogateType::input
//@extract src/interrogatedb/interrogateFunction.cxx InterrogateFunction::output
//@extract src/interrogatedb/interrogateFunction.cxx InterrogateFunction::input
//@extract src/interrogatedb/interrogateFunctionWrapper.cxx InterrogateFunctionWrapper::Parameter::output
//@extract src/interrogatedb/interrogateFunctionWrapper.cxx InterrogateFunctionWrapper::Parameter::input
//@extract src/interrogatedb/interrogateFunctionWrapper.cxx InterrogateFunctionWrapper::output
//@extract src/interrogatedb/interrogateFunctionWrapper.cxx InterrogateFunctionWrapper::input
//@extract src/interrogatedb/interrogateElement.cxx InterrogateElement::output
//@extract src/interrogatedb/interrogateElement.cxx InterrogateElement::input
//@extract src/interrogatedb/interrogateManifest.cxx InterrogateManifest::output
//@extract src/interrogatedb/interrogateManifest.cxx InterrogateManifest::input
//@extract src/interrogatedb/interrogateMakeSeq.cxx InterrogateMakeSeq::output
//@extract src/interrogatedb/interrogateMakeSeq.cxx InterrogateMakeSeq::input

std::string InterrogateComponent::_empty_string;

static std::ostream g_out;
static std::istream g_in;
#define CONSUMED(what) OBL(!g_in.fail() && g_in._at_end_modulo_ws(), "C12.roundtrip " what ": reading succeeds and consumes exactly what was written")

// ---- strings: every byte value, every length 0..CAP, any following stream content
void h_string_roundtrip() {
  std::string vin_s; vu_havoc_string(vin_s);
  char vin_ws = nondet_bool() ? ' ' : '\n';
  int vin_next = nondet_int();
  idf_output_string(g_out, vin_s, vin_ws);
  g_out << vin_next << " ";                       // whatever follows: the next field
  g_in._from(g_out);
  std::string r; vu_havoc_string(r);               // previous content of the target is irrelevant
  idf_input_string(g_in, r);
  OBL(r == vin_s, "C12.idf_string: a string of any bytes (spaces, newlines, quotes, NUL, 0xFF) and any length reads back identically");
  int next = 0; g_in >> next;
  OBL(!g_in.fail() && next == vin_next, "C12.idf_string: the reader stops exactly at the end of the string (the next field reads back)");
  VU_REACHED();
}
// ---- C strings (module definition strings)
void h_cstring_roundtrip() {
  std::string vin_s; vu_havoc_string(vin_s);
  for (size_t i = 0; i < std::string::CAP; i++) __CPROVER_assume(i >= vin_s._n || vin_s._d[i] != 0);     // a C string has no interior NUL
  bool vin_null = nondet_bool();
  int vin_next = nondet_int();
  idf_output_string(g_out, vin_null ? (const char *)0 : vin_s.c_str());
  g_out << vin_next << " ";
  g_in._from(g_out);
  const char *prev = "prev"; const char *r = prev;
  idf_input_string(g_in, r);
  if (vin_null || vin_s._n == 0) OBL(r == prev, "C12.idf_cstring: a null or empty string leaves the target unchanged");
  else { bool same = strlen(r) == vin_s._n; for (size_t i = 0; i < std::string::CAP; i++) if (i < vin_s._n && r[i] != vin_s._d[i]) same = false;
         OBL(same, "C12.idf_cstring: a C string reads back identically"); }
  int next = 0; g_in >> next;
  OBL(!g_in.fail() && next == vin_next, "C12.idf_cstring: the reader stops exactly at the end of the string");
  VU_REACHED();
}
// ---- index lists
void h_intvec_roundtrip() {
  std::vector<int> vin_v; vu_havoc_intvec(vin_v);
  int vin_next = nondet_int();
  idf_output_vector(g_out, vin_v);
  g_out << vin_next << " ";
  g_in._from(g_out);
  std::vector<int> r; vu_havoc_intvec(r);
  idf_input_vector(g_in, r);
  bool same = r._n == vin_v._n; for (size_t i = 0; i < std::vector<int>::CAP; i++) if (i < vin_v._n && r._d[i] != vin_v._d[i]) same = false;
  OBL(same, "C12.idf_vector: an index list reads back identically (previous content of the target discarded)");
  int next = 0; g_in >> next;
  OBL(!g_in.fail() && next == vin_next, "C12.idf_vector: the reader stops exactly at the end of the list");
  VU_REACHED();
}

// ---- records
#define RECORD_RT(CLS, PRE) \
static CLS g_x_##CLS, g_y_##CLS; \
static void rt_##CLS(int shape) { \
  g_vu_shape = shape; g_vu_k = 0; \
  havoc_##CLS(g_x_##CLS); PRE; \
  InterrogateDatabase::_file_minor_version = 3; \
  g_x_##CLS.output(g_out); g_out << "\n"; \
  g_in._from(g_out); \
  g_y_##CLS.input(g_in); \
  CHECK_EQUAL_##CLS("C12.roundtrip", "the member read back equals the member written", g_y_##CLS, g_x_##CLS); \
  CONSUMED(#CLS); \
  VU_REACHED(); } \
/* every prefix of what was written (a truncated file): the reader stops, and it does not take the prefix for a whole record */ \
static void tr_##CLS(int shape) { \
  g_vu_shape = shape; g_vu_k = 0; \
  havoc_##CLS(g_x_##CLS); PRE; \
  InterrogateDatabase::_file_minor_version = 3; \
  g_x_##CLS.output(g_out); \
  size_t vin_cut = nondet_size_t(); __CPROVER_assume(vin_cut < g_out._n); \
  g_in._from_prefix(g_out, vin_cut); \
  g_y_##CLS.input(g_in); \
  OBL(g_in.fail() || g_in._pos >= vin_cut, "C12.truncated " #CLS ": a record cut short is reported through the stream's fail state (read_new then sets the error flag), unless the reader needed no more than the prefix"); \
  VU_REACHED(); } \
/* the rest of a truncated file: the stream has already failed when the reader is entered */ \
static void fl_##CLS() { \
  g_in._from(g_out); g_in._state = std::ios_base::failbit | std::ios_base::eofbit; \
  InterrogateDatabase::_file_minor_version = nondet_int(); \
  g_y_##CLS.input(g_in); \
  OBL(g_in.fail(), "C12.truncated " #CLS ": a reader entered with a failed stream leaves it failed"); \
  VU_REACHED(); }

RECORD_RT(InterrogateType,
  /* the array flag decides whether _array_size is written: concrete per shape (both values occur over the shapes) */ \
  g_x_InterrogateType._flags = (shape & 1) ? (int)(InterrogateType::F_array | InterrogateType::F_global | InterrogateType::F_fully_defined) : (int)(InterrogateType::F_struct | InterrogateType::F_nested); \
  if (!(shape & 1)) g_x_InterrogateType._array_size = 1 /* class invariant: non-array types keep the constructor's array size 1 */)
void h_type_roundtrip_s0() { rt_InterrogateType(0); }
void h_type_roundtrip_s1() { rt_InterrogateType(1); }
void h_type_roundtrip_s2() { rt_InterrogateType(2); }
void h_type_roundtrip_s3() { rt_InterrogateType(3); }
void h_type_roundtrip_s4() { rt_InterrogateType(4); }
void h_trunc_type_s1() { tr_InterrogateType(1); }
void h_trunc_type_s2() { tr_InterrogateType(2); }
void h_trunc_type_failed_stream() { fl_InterrogateType(); }
RECORD_RT(InterrogateFunction, (void)0)
void h_function_roundtrip_s0() { rt_InterrogateFunction(0); }
void h_function_roundtrip_s1() { rt_InterrogateFunction(1); }
void h_function_roundtrip_s2() { rt_InterrogateFunction(2); }
void h_function_roundtrip_s3() { rt_InterrogateFunction(3); }
void h_function_roundtrip_s4() { rt_InterrogateFunction(4); }
void h_trunc_function_s1() { tr_InterrogateFunction(1); }
void h_trunc_function_s2() { tr_InterrogateFunction(2); }
void h_trunc_function_failed_stream() { fl_InterrogateFunction(); }
RECORD_RT(InterrogateFunctionWrapper, (void)0)
void h_wrapper_roundtrip_s0() { rt_InterrogateFunctionWrapper(0); }
void h_wrapper_roundtrip_s1() { rt_InterrogateFunctionWrapper(1); }
void h_wrapper_roundtrip_s2() { rt_InterrogateFunctionWrapper(2); }
void h_wrapper_roundtrip_s3() { rt_InterrogateFunctionWrapper(3); }
void h_wrapper_roundtrip_s4() { rt_InterrogateFunctionWrapper(4); }
void h_trunc_wrapper_s1() { tr_InterrogateFunctionWrapper(1); }
void h_trunc_wrapper_s2() { tr_InterrogateFunctionWrapper(2); }
void h_trunc_wrapper_failed_stream() { fl_InterrogateFunctionWrapper(); }
RECORD_RT(InterrogateElement, (void)0)
void h_element_roundtrip_s0() { rt_InterrogateElement(0); }
void h_element_roundtrip_s1() { rt_InterrogateElement(1); }
void h_element_roundtrip_s2() { rt_InterrogateElement(2); }
void h_element_roundtrip_s3() { rt_InterrogateElement(3); }
void h_element_roundtrip_s4() { rt_InterrogateElement(4); }
void h_trunc_element_s1() { tr_InterrogateElement(1); }
void h_trunc_element_s2() { tr_InterrogateElement(2); }
void h_trunc_element_failed_stream() { fl_InterrogateElement(); }
RECORD_RT(InterrogateManifest, (void)0)
void h_manifest_roundtrip_s0() { rt_InterrogateManifest(0); }
void h_manifest_roundtrip_s1() { rt_InterrogateManifest(1); }
void h_manifest_roundtrip_s2() { rt_InterrogateManifest(2); }
void h_manifest_roundtrip_s3() { rt_InterrogateManifest(3); }
void h_manifest_roundtrip_s4() { rt_InterrogateManifest(4); }
void h_trunc_manifest_s1() { tr_InterrogateManifest(1); }
void h_trunc_manifest_s2() { tr_InterrogateManifest(2); }
void h_trunc_manifest_failed_stream() { fl_InterrogateManifest(); }
RECORD_RT(InterrogateMakeSeq, (void)0)
void h_make_seq_roundtrip_s0() { rt_InterrogateMakeSeq(0); }
void h_make_seq_roundtrip_s1() { rt_InterrogateMakeSeq(1); }
void h_make_seq_roundtrip_s2() { rt_InterrogateMakeSeq(2); }
void h_make_seq_roundtrip_s3() { rt_InterrogateMakeSeq(3); }
void h_make_seq_roundtrip_s4() { rt_InterrogateMakeSeq(4); }
void h_trunc_make_seq_s1() { tr_InterrogateMakeSeq(1); }
void h_trunc_make_seq_s2() { tr_InterrogateMakeSeq(2); }
void h_trunc_make_seq_failed_stream() { fl_InterrogateMakeSeq(); }

// ---- older 3.x minor formats of elements: a file of minor version v lacks the members introduced later
static void spec_write_element(std::ostream &out, const InterrogateElement &x, int v) {
  x.InterrogateComponent::output(out);
  out << x._flags << " " << x._type << " " << x._getter << " " << x._setter << " ";
  if (v >= 1) out << x._has_function << " " << x._clear_function << " ";
  if (v >= 2) out << x._del_function << " " << x._length_function << " ";
  if (v >= 3) out << x._insert_function << " " << x._getkey_function << " ";
  idf_output_string(out, x._scoped_name);
  idf_output_string(out, x._comment, '\n');
}
static InterrogateElement g_ex, g_ey;
static void element_old_formats(int shape, int vin_minor) {
  g_vu_shape = shape; g_vu_k = 0;
  havoc_InterrogateElement(g_ex);
  InterrogateDatabase::_file_minor_version = vin_minor;
  spec_write_element(g_out, g_ex, vin_minor); g_out << "\n";
  g_in._from(g_out);
  g_ey.input(g_in);
  CONSUMED("InterrogateElement (minor format 0..3)");
  OBL(g_ey._flags == g_ex._flags && g_ey._type == g_ex._type && g_ey._getter == g_ex._getter && g_ey._setter == g_ex._setter &&
      g_ey._name == g_ex._name && g_ey._scoped_name == g_ex._scoped_name && g_ey._comment == g_ex._comment,
      "C12.old_formats: members present in every 3.x format read back");
  OBL(vin_minor >= 1 ? (g_ey._has_function == g_ex._has_function && g_ey._clear_function == g_ex._clear_function) : (g_ey._has_function == 0 && g_ey._clear_function == 0),
      "C12.old_formats: has/clear function present from 3.1, default 0 before");
  OBL(vin_minor >= 2 ? (g_ey._del_function == g_ex._del_function && g_ey._length_function == g_ex._length_function) : (g_ey._del_function == 0 && g_ey._length_function == 0),
      "C12.old_formats: del/length function present from 3.2, default 0 before");
  OBL(vin_minor >= 3 ? (g_ey._insert_function == g_ex._insert_function && g_ey._getkey_function == g_ex._getkey_function) : (g_ey._insert_function == 0 && g_ey._getkey_function == 0),
      "C12.old_formats: insert/getkey function present from 3.3, default 0 before");
  VU_REACHED();
}
void h_element_old_formats_v0_s1() { element_old_formats(1, 0); }
void h_element_old_formats_v0_s2() { element_old_formats(2, 0); }
void h_element_old_formats_v0_s3() { element_old_formats(3, 0); }
void h_element_old_formats_v1_s1() { element_old_formats(1, 1); }
void h_element_old_formats_v1_s2() { element_old_formats(2, 1); }
void h_element_old_formats_v1_s3() { element_old_formats(3, 1); }
void h_element_old_formats_v2_s1() { element_old_formats(1, 2); }
void h_element_old_formats_v2_s2() { element_old_formats(2, 2); }
void h_element_old_formats_v2_s3() { element_old_formats(3, 2); }
void h_element_old_formats_v3_s1() { element_old_formats(1, 3); }
void h_element_old_formats_v3_s2() { element_old_formats(2, 3); }
void h_element_old_formats_v3_s3() { element_old_formats(3, 3); }
// two files of different minor versions loaded in one process: the reader follows the version of the file it is reading,
// not the version of the first file it ever saw
static std::ostream g_out_b; static std::istream g_in_b; static InterrogateElement g_ex_b, g_ey_b;
static void element_two_versions(int v_first, int v_second) {
  g_vu_shape = 1; g_vu_k = 0;
  havoc_InterrogateElement(g_ex); havoc_InterrogateElement(g_ex_b);
  InterrogateDatabase::_file_minor_version = v_first;
  spec_write_element(g_out, g_ex, v_first); g_out << "\n";
  g_in._from(g_out);
  g_ey.input(g_in);
  InterrogateDatabase::_file_minor_version = v_second;
  spec_write_element(g_out_b, g_ex_b, v_second); g_out_b << "\n";
  g_in_b._from(g_out_b);
  g_ey_b.input(g_in_b);
  OBL(!g_in_b.fail() && g_in_b._at_end_modulo_ws(), "C12.old_formats: a file of another minor version, read after the first one in the same process, is read in ITS format (consumed exactly)");
  OBL(g_ey_b._flags == g_ex_b._flags && g_ey_b._getter == g_ex_b._getter && g_ey_b._scoped_name == g_ex_b._scoped_name && g_ey_b._comment == g_ex_b._comment, "C12.old_formats: the second file's members read back");
  OBL(v_second >= 3 ? (g_ey_b._insert_function == g_ex_b._insert_function && g_ey_b._getkey_function == g_ex_b._getkey_function) : (g_ey_b._insert_function == 0 && g_ey_b._getkey_function == 0), "C12.old_formats: insert/getkey of the second file follow the second file's version");
  VU_REACHED();
}
void h_element_two_versions_new_then_old() { element_two_versions(3, 1); }
void h_element_two_versions_old_then_new() { element_two_versions(1, 3); }
// the format-spec writer for minor version 3 is the real writer
static std::ostream g_out2;
static void element_spec_writer(int shape) {
  g_vu_shape = shape; g_vu_k = 0;
  havoc_InterrogateElement(g_ex);
  spec_write_element(g_out, g_ex, 3);
  g_ex.output(g_out2);
  bool same = g_out._n == g_out2._n;
  for (size_t i = 0; i < VSTL_STREAM_CAP; i++) if (i < g_out._n && (g_out._t[i].is_int != g_out2._t[i].is_int || g_out._t[i].is_str != g_out2._t[i].is_str || !(g_out._t[i].str == g_out2._t[i].str) || g_out._t[i].ival != g_out2._t[i].ival || g_out._t[i].ch != g_out2._t[i].ch)) same = false;
  OBL(same, "C12.old_formats: the format description used for 3.0-3.2 coincides with the real writer at 3.3");
  VU_REACHED();
}
void h_element_spec_writer_s1() { element_spec_writer(1); }
void h_element_spec_writer_s2() { element_spec_writer(2); }
void h_element_spec_writer_s3() { element_spec_writer(3); }
