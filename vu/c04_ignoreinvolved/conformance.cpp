// Native conformance check of the InterrogateBuilder skeleton used by VU c04_ignoreinvolved.
#include "interrogateBuilder.h"
#include <type_traits>
static_assert(std::is_same<InterrogateBuilder::Commands, std::set<std::string> >::value, "Commands");
static_assert(std::is_same<decltype(InterrogateBuilder::_ignoreinvolved), InterrogateBuilder::Commands>::value, "_ignoreinvolved");
static_assert(std::is_same<decltype(static_cast<bool (InterrogateBuilder::*)(const std::string &) const>(&InterrogateBuilder::in_ignoreinvolved)), bool (InterrogateBuilder::*)(const std::string &) const>::value, "in_ignoreinvolved(name)");
static_assert(std::is_same<decltype(static_cast<bool (InterrogateBuilder::*)(CPPType *) const>(&InterrogateBuilder::in_ignoreinvolved)), bool (InterrogateBuilder::*)(CPPType *) const>::value, "in_ignoreinvolved(type)");
int main() { return 0; }
