"""Native replay for the copy obligations: a synthetic database file carrying an alternate name is loaded through
the real libinterrogatedb and written again; the bytes must be identical (apart from the identifier line)."""
import os, sys, tempfile, shutil
sys.path.insert(0, os.path.join(os.path.dirname(os.path.realpath(__file__)), "..", "..", "lib"))
import native

DB = """1
3 3
1 l 4 0zDC 1 m 
0
0
1
7 3 Foo 1 2 Al 141313 3 Foo 3 Foo 0 0 0 0 0 0 0 0 0 0 0 0 0

0
0
0
"""
DRIVER = r'''
#include "interrogateDatabase.h"
#include "interrogate_request.h"
#include <iostream>
#include <fstream>
#include <sstream>
int main(int argc, char **argv) {
  static InterrogateModuleDef def = {0, nullptr, nullptr, nullptr, nullptr, nullptr, 0, nullptr, 0, 0, 0};
  def.database_filename = argv[1];
  interrogate_request_module(&def);
  InterrogateDatabase *db = InterrogateDatabase::get_ptr();
  db->get_num_global_types();
  if (db->get_error_flag()) { std::cerr << "load error\n"; return 2; }
  std::ostringstream out; db->write(out, &def);
  std::ifstream f(argv[1]); std::stringstream orig; orig << f.rdbuf();
  std::string a = out.str(), b = orig.str();
  a = a.substr(a.find('\n') + 1); b = b.substr(b.find('\n') + 1);
  if (a == b) { std::cout << "identical\n"; return 0; }
  size_t i = 0; while (i < a.size() && i < b.size() && a[i] == b[i]) i++;
  std::cout << "DIFFERENT at byte " << i << ": wrote [" << a.substr(i, 30) << "] file has [" << b.substr(i, 30) << "]\n";
  return 1;
}
'''


def replay(ctx):
    if not ctx["entry"].startswith("h_copy_") or "_alt_names" not in ctx["obligation"] and "InterrogateType" not in ctx["obligation"]:
        return {"reproduced": False, "note": "no replay template for %s / %s" % (ctx["entry"], ctx["obligation"])}
    nb = native.NativeBuild(targets=("interrogatedb",))
    try:
        if not nb.build():
            return {"reproduced": False, "error": "native build failed", "log": nb.log[-1500:]}
        exe = nb.compile_driver(DRIVER)
        if not exe:
            return {"reproduced": False, "error": "driver did not compile", "log": nb.log[-1500:]}
        d = tempfile.mkdtemp(prefix="verif-replay-", dir="/var/tmp")
        f = os.path.join(d, "synthetic.in")
        open(f, "w").write(DB)
        rc, out = native.sh(["timeout", "20", exe, f])
        shutil.rmtree(d, ignore_errors=True)
        return {"reproduced": rc == 1, "cmd": "load synthetic.in (type Foo with one alternate name); write(); compare bytes",
                "observed": native.describe_exit(rc), "output": out[-500:]}
    finally:
        nb.close()
