// VU c13_merge_with: InterrogateType::merge_with and the copy operations of the record classes
// (copying is how a record read from a file enters the database: std::map::insert(value_type(index, record))).
#define private public
#define protected public
#include "vu_common.h"
//@headers src/dtoolbase src/interrogatedb
//@shadow config_interrogatedb.h indent.h
//@truncate interrogateDatabase.I from=src/interrogatedb/interrogateDatabase.I anchor="lookup_type_by_name(const"
//@generate gen.py
#include "interrogateDatabase.h"
#include "records_gen.h"

//@extract src/interrogatedb/interrogateType.cxx InterrogateType::InterrogateType ordinal=0
//@extract src/interrogatedb/interrogateType.cxx InterrogateType::InterrogateType ordinal=1
//@extract src/interrogatedb/interrogateType.cxx "InterrogateType::operator ="
//@extract src/interrogatedb/interrogateType.cxx InterrogateType::merge_with
//@extract src/interrogatedb/interrogateFunction.cxx InterrogateFunction::InterrogateFunction ordinal=0
//@extract src/interrogatedb/interrogateFunction.cxx InterrogateFunction::InterrogateFunction ordinal=1
//@extract src/interrogatedb/interrogateFunction.cxx "InterrogateFunction::operator ="

std::string InterrogateComponent::_empty_string;

static InterrogateType g_a, g_b, g_a0;
enum { FG = InterrogateType::F_global, FD = InterrogateType::F_fully_defined };

void h_merge_with() {
  g_vu_shape = -1;
  havoc_InterrogateType(g_a); havoc_InterrogateType(g_b);
  copy_InterrogateType(g_a0, g_a);
  bool fd_a = (g_a._flags & FD) != 0, fd_b = (g_b._flags & FD) != 0;
  g_a.merge_with(g_b);
  OBL(((g_a._flags & FG) != 0) == (((g_a0._flags & FG) != 0) || ((g_b._flags & FG) != 0)), "C13.merge_with: global-ness of the merged type is the union");
  bool is_ours = eqp_InterrogateType(g_a, g_a0, ~FG), is_theirs = eqp_InterrogateType(g_a, g_b, ~FG);
  if (fd_a && !fd_b) OBL(is_ours, "C13.merge_with: the fully defined definition wins (ours)");
  if (!fd_a && fd_b) OBL(is_theirs, "C13.merge_with: the fully defined definition wins (theirs), with every member of it");
  OBL(is_ours || is_theirs, "C13.merge_with: the merged type is one of the two definitions, whole (apart from the global flag)");
  VU_REACHED();
}

// ---- copies keep every persistent member (a record read from a file is copied into the database map)
#define COPY_ENTRY(H, CLS) \
static CLS g_src_##CLS; \
void H##_assign() { g_vu_shape = -1; havoc_##CLS(g_src_##CLS); static CLS dst; dst = g_src_##CLS; \
  CHECK_EQUAL_##CLS("C12.copy", "operator= keeps the member", dst, g_src_##CLS); VU_REACHED(); } \
void H##_copy_ctor() { g_vu_shape = -1; havoc_##CLS(g_src_##CLS); CLS dst(g_src_##CLS); \
  CHECK_EQUAL_##CLS("C12.copy", "the copy constructor keeps the member", dst, g_src_##CLS); VU_REACHED(); }

COPY_ENTRY(h_copy_type, InterrogateType)
COPY_ENTRY(h_copy_function, InterrogateFunction)
COPY_ENTRY(h_copy_wrapper, InterrogateFunctionWrapper)
COPY_ENTRY(h_copy_element, InterrogateElement)
COPY_ENTRY(h_copy_manifest, InterrogateManifest)
COPY_ENTRY(h_copy_make_seq, InterrogateMakeSeq)
