"""Native replay for VU c20_unique_name: runs the real libinterrogatedb (built from the working tree)."""
import os, sys
sys.path.insert(0, os.path.join(os.path.dirname(os.path.abspath(__file__)), "..", "..", "lib"))
import native

DRIVER = r'''
#include "interrogate_request.h"
#include "interrogate_interface.h"
#include <stdio.h>
#include <string.h>
static InterrogateUniqueNameDef names[] = { %(names)s };
static InterrogateModuleDef def = { 0, "lib", "LIBH", "mod", nullptr, names, %(n)d, nullptr, 0, 1, %(n)d + 1 };
int main() {
  interrogate_request_module(&def);
  const unsigned char key[] = { %(key)s 0 };
  int r = interrogate_get_wrapper_by_unique_name((const char *)key);
  printf("result %%d\n", r);
  return 0;
}
'''


def c_bytes(vin, var):
    n = int(str(vin.get(var + "._n", "0")).rstrip("ul") or 0)
    out = []
    for i in range(min(n, 16)):
        b = vin.get("%s._d[%dl]#bin" % (var, i))
        out.append(int(b, 2) if b else 0x61)
    return out


def replay(ctx):
    vin = ctx["vin"]
    nb = native.NativeBuild(targets=("interrogatedb",))
    try:
        if not nb.build():
            return {"reproduced": False, "error": "native build failed", "log": nb.log[-1500:]}
        if ctx["entry"] == "h_get_wrapper_by_unique_name":
            key = c_bytes(vin, "vin_name")
            key = [b for b in key if b != 0]            # a C string argument ends at the first NUL
            names, n = '{"aaaa", 0}', 1
        else:
            # bswh: table range of (end-begin) entries; the counterexample's key is greater than / different from
            # the probed entry.  Reconstruct: sorted names b0.., key above the last entry.
            try:
                size = int(str(vin.get("vin_end", "1")).rstrip("ul")) - int(str(vin.get("vin_begin", "0")).rstrip("ul"))
            except Exception:
                size = 1
            size = max(1, min(size, 64))
            names = ", ".join('{"b%03d", %d}' % (i, i) for i in range(size))
            n = size
            key = list(b"LIBHzzzz")
        src = DRIVER % {"names": names, "n": n, "key": "".join("%d, " % b for b in key)}
        exe = nb.compile_driver(src)
        if not exe:
            return {"reproduced": False, "error": "driver did not compile", "log": nb.log[-1500:]}
        rc, out = native.sh(["bash", "-c", "ulimit -s 8192; exec timeout 20 %s" % exe])
        bad = rc < 0 or rc >= 124
        return {"reproduced": bool(bad), "cmd": "interrogate_request_module(%d names); interrogate_get_wrapper_by_unique_name(%r)" % (n, bytes(key)),
                "observed": native.describe_exit(rc), "output": out[-800:]}
    finally:
        nb.close()
