// VU c20_unique_name: binary_search_wrapper_hash (one recursion step against its contract, table size
// <= VU_TBL_MAX) and get_wrapper_by_unique_name.  Strings are capped (VSTL_STR_CAP): B mode in string length.
#define private public
#define protected public
#include "vu_common.h"
struct InterrogateModuleDef;
inline void vstl_fresh_value(InterrogateModuleDef *&v);
//@headers src/dtoolbase src/interrogatedb
//@shadow config_interrogatedb.h indent.h
//@truncate interrogateDatabase.I from=src/interrogatedb/interrogateDatabase.I anchor="lookup_type_by_name(const"
//@hdrinsert interrogateDatabase.h after="const std::string &wrapper_hash_name);" text="int binary_search_wrapper_hash__body(InterrogateUniqueNameDef *begin, InterrogateUniqueNameDef *end, const std::string &wrapper_hash_name);"
#include "interrogateDatabase.h"

//@extract src/interrogatedb/interrogateType.cxx InterrogateType::InterrogateType ordinal=0
//@extract src/interrogatedb/interrogateFunction.cxx InterrogateFunction::InterrogateFunction ordinal=0
//@extract src/interrogatedb/interrogateDatabase.cxx InterrogateDatabase::InterrogateDatabase
//@extract src/interrogatedb/interrogateDatabase.cxx InterrogateDatabase::binary_search_wrapper_hash rename=__body
//@extract src/interrogatedb/interrogateDatabase.cxx InterrogateDatabase::get_wrapper_by_unique_name

std::string InterrogateComponent::_empty_string;
void InterrogateDatabase::load_latest() { _requests._n = 0; }

static InterrogateDatabase g_db;
static InterrogateUniqueNameDef *g_table; static size_t g_n;     // the unique-name table, any size
static size_t g_k;                                               // arbitrary position: the universal quantifier
static InterrogateUniqueNameDef *g_outer_begin, *g_outer_end;
static bool g_in_body;
static size_t g_witness;                                         // existential witness returned by the callee contract

static std::string NAME(size_t i) { __CPROVER_assume(g_table[i].name != 0); return std::string(g_table[i].name); }   // names are non-null (table well-formed)
// precondition "table strictly sorted by name" instantiated at a pair of positions
static bool sorted_at(size_t a, size_t b) {
  if (a == b) return true;
  if (a < b) return NAME(a) < NAME(b);
  return NAME(b) < NAME(a);
}

// contract of binary_search_wrapper_hash in replace form (+ measure obligations when called from the body)
int InterrogateDatabase::binary_search_wrapper_hash(InterrogateUniqueNameDef *begin, InterrogateUniqueNameDef *end,
                                                    const std::string &key) {
  OBL(__CPROVER_same_object(begin, g_table) && __CPROVER_same_object(end, g_table) && begin <= end && end <= g_table + g_n,
      "C20.binary_search_wrapper_hash: (recursive) call gets a range inside the table");
  if (g_in_body) {
    OBL(g_outer_begin <= begin && end <= g_outer_end, "C20.binary_search_wrapper_hash: recursive call stays inside the caller's range");
    OBL(end - begin < g_outer_end - g_outer_begin, "C20.binary_search_wrapper_hash: measure end-begin strictly decreases at each recursive call (unknown names answered in bounded time)");
  }
  size_t sb = begin - g_table, se = end - g_table;
  int r = nondet_int();
  __CPROVER_assume(r >= -1);
  g_witness = nondet_size_t();
  __CPROVER_assume(r >= 0 ? (sb <= g_witness && g_witness < se && NAME(g_witness) == key && r == g_table[g_witness].index_offset) : true);
  __CPROVER_assume((sb <= g_k && g_k < se && NAME(g_k) == key) ? r == g_table[g_k].index_offset : true);
  return r;
}

static void make_table() {
  g_n = nondet_size_t(); __CPROVER_assume(g_n <= VU_TBL_MAX);
  g_table = new InterrogateUniqueNameDef[g_n + 1];
}
static std::string make_key() {
  std::string k; k._trunc = false; k._n = nondet_size_t(); __CPROVER_assume(k._n <= std::string::CAP);
  for (size_t i = 0; i < std::string::CAP; i++) { char c = nondet_char(); k._d[i] = (i < k._n) ? c : (char)0; }
  k._d[std::string::CAP] = 0; return k;
}

// ---- one step of binary_search_wrapper_hash against the contract
void h_bswh_step() {
  make_table();
  size_t vin_begin = nondet_size_t(), vin_end = nondet_size_t();
  __CPROVER_assume(vin_begin <= vin_end && vin_end <= g_n);
  std::string vin_key = make_key();
  g_k = nondet_size_t(); __CPROVER_assume(vin_begin <= g_k && g_k < vin_end);      // (exists only if the range is non-empty)
  size_t mid = vin_begin + (vin_end - vin_begin) / 2;                               // ghost: where "sorted" is instantiated
  if (vin_begin < vin_end) { __CPROVER_assume(g_table[mid].name != 0 && g_table[g_k].name != 0); __CPROVER_assume(sorted_at(mid, g_k)); __CPROVER_assume(g_table[mid].index_offset >= 0 && g_table[g_k].index_offset >= 0); }
  g_outer_begin = g_table + vin_begin; g_outer_end = g_table + vin_end; g_in_body = true;
  int r = g_db.binary_search_wrapper_hash__body(g_table + vin_begin, g_table + vin_end, vin_key);
  OBL(r >= -1, "C20.binary_search_wrapper_hash: result is -1 or an index offset");
  if (vin_begin < vin_end && NAME(g_k) == vin_key)
    OBL(r == g_table[g_k].index_offset, "C20.binary_search_wrapper_hash: a name that is in the range is found (returns its index offset)");
  if (r >= 0) {
    // witness: either the probed position or the callee's witness
    bool at_mid = vin_begin < vin_end && NAME(mid) == vin_key && r == g_table[mid].index_offset;
    bool from_callee = vin_begin <= g_witness && g_witness < vin_end && NAME(g_witness) == vin_key && r == g_table[g_witness].index_offset;
    OBL(at_mid || from_callee, "C20.binary_search_wrapper_hash: a non-negative result is the offset of an entry bearing exactly that name");
  }
  VU_REACHED();
}
// an empty range is answered at once
void h_bswh_empty() {
  make_table();
  size_t vin_begin = nondet_size_t(); __CPROVER_assume(vin_begin <= g_n);
  std::string vin_key = make_key();
  g_outer_begin = g_table + vin_begin; g_outer_end = g_outer_begin; g_in_body = true; g_k = 0;
  int r = g_db.binary_search_wrapper_hash__body(g_table + vin_begin, g_table + vin_begin, vin_key);
  OBL(r == -1, "C20.binary_search_wrapper_hash: an empty table range yields -1");
  VU_REACHED();
}

// ---- get_wrapper_by_unique_name against the contract of binary_search_wrapper_hash
static InterrogateModuleDef g_def;
inline void vstl_fresh_value(InterrogateModuleDef *&v) { v = &g_def; }
void h_get_wrapper_by_unique_name() {
  make_table();
  std::string vin_name = make_key();                   // every length 0..CAP, every content
  g_in_body = false; g_k = nondet_size_t();
  g_def.unique_names = g_table; g_def.num_unique_names = nondet_int();
  __CPROVER_assume(g_def.num_unique_names >= 0 && (size_t)g_def.num_unique_names <= g_n);
  g_def.first_index = nondet_int();
  g_db._modules_by_hash._gk = make_key(); g_db._modules_by_hash._gentry.first = g_db._modules_by_hash._gk;
  g_db._modules_by_hash._gpresent = nondet_bool(); g_db._modules_by_hash._gentry.second = &g_def;
#ifdef KF_C20_SHORT_UNIQUE_NAME
  __CPROVER_assume(vin_name._n >= 4);
#endif
  int r = g_db.get_wrapper_by_unique_name(vin_name);
  // library part = first four characters (or fewer)
  std::string lib = vin_name.substr(0, 4);
  if (g_db._modules_by_hash._gk == lib && !g_db._modules_by_hash._gpresent)
    OBL(r == 0, "C20.get_wrapper_by_unique_name: a name whose library hash is unknown returns 0");
  OBL(r == 0 || r - g_def.first_index >= 0, "C20.get_wrapper_by_unique_name: a non-zero answer is first_index plus a found offset");
  VU_REACHED();
}
