// VU c04_resolve_reference: CPPReferenceType::resolve_type.  Resolving the referenced type (a forward-declared class that is
// defined later, a typedef, a template parameter) must give the same kind of reference: an rvalue reference stays an rvalue
// reference, because the export gate involves_rvalue_reference() looks at the resolved type.
#define private public
#define protected public
#include "vu_common.h"
//@headers src/dtoolbase src/dtoolutil src/cppparser
//@shadow filename.h
//@hdrsubst cpp*.h except=cppDeclaration.h "from=(?m)^\s*virtual CPP\w+ \*as_\w+\(\);\s*$" to=
//@hdrsubst cpp*.h "from=\bvirtual\s+" to=
// the front end declares the implicit copy constructor of CPPType but gives it no body: declared explicitly in the header copy
// and defined below (member-wise)
//@hdrinsert cppType.h after="CPPType(const CPPFile &file);" text="CPPType(const CPPType &copy);"
//@bison src/cppparser/cppBison.yxx cppBison.h
#include "dtoolbase.h"
#include "cppReferenceType.h"
#include "cppBison.h"
#include "vstl_globals.h"

// ---- callees (replace form)
static CPPType *g_inner, *g_inner_resolved;
CPPType *CPPType::resolve_type(CPPScope *current_scope, CPPScope *global_scope) { __CPROVER_assert(this == g_inner, "C04.model: only the referenced type is resolved"); return g_inner_resolved; }
CPPType *CPPType::new_type(CPPType *type) { return type; }       // unique-type table: returns a type equal to its argument
CPPFile::CPPFile(const Filename &filename, const Filename &filename_as_referenced, Source source) : _source(source), _pragma_once(false) {}
CPPDeclaration::CPPDeclaration(const CPPFile &file, CPPAttributeList attr) : _file(file) { _vis = V_unknown; _template_scope = 0; _leading_comment = 0; }
CPPDeclaration::CPPDeclaration(const CPPDeclaration &copy) : _file(copy._file) { _vis = copy._vis; _template_scope = copy._template_scope; _leading_comment = copy._leading_comment; }
CPPType::CPPType(const CPPFile &file) : CPPDeclaration(file, CPPAttributeList()) { _declaration = 0; }
CPPType::CPPType(const CPPType &copy) : CPPDeclaration(copy) { _declaration = copy._declaration; }
//@extract src/cppparser/cppReferenceType.cxx CPPReferenceType::CPPReferenceType
//@extract src/cppparser/cppReferenceType.cxx CPPReferenceType::resolve_type

void h_resolve_reference() {
  g_inner = (CPPType *)vu_alloc(8); g_inner_resolved = nondet_bool() ? g_inner : (CPPType *)vu_alloc(8);
  int vin_cat = nondet_int(); __CPROVER_assume(vin_cat == CPPReferenceType::VC_lvalue || vin_cat == CPPReferenceType::VC_rvalue);
  CPPReferenceType ref(g_inner, (CPPReferenceType::ValueCategory)vin_cat);
  CPPType *r = ref.resolve_type((CPPScope *)0, (CPPScope *)0);
  CPPReferenceType *rr = (CPPReferenceType *)r;
  OBL(rr->_pointing_at == g_inner_resolved, "C04.resolve_type: the resolved reference refers to the resolved type");
  OBL(rr->_value_category == vin_cat, "C04.resolve_type: an rvalue reference stays an rvalue reference (and an lvalue reference an lvalue reference) when the referenced type is resolved");
  OBL(g_inner_resolved != g_inner || r == (CPPType *)&ref, "C04.resolve_type: a reference whose referenced type is already resolved is returned as it is");
  VU_REACHED();
}
