// VU c07_precedence: the precedence and associativity that the grammar gives the operators of constant expressions, and the
// shape of the actions that build the expression nodes.  bison resolves the shift/reduce conflicts of the ambiguous
// productions `e OP e` by the %left/%right declarations (a later line binds tighter); the contract is that this order is
// the order of the C++ grammar ([expr.mul] ... [expr.cond]) and that `x OP y` becomes CPPExpression(OP, x, y).
#include "vu_common.h"
//@generate gen.py
#include "prec_gen.h"

// one obligation per adjacent pair of C++ precedence classes, from the tightest (multiplicative) to the loosest (?:)
void h_precedence_is_cpp() {
  // [expr.mul] > [expr.add] > [expr.shift] > [expr.spaceship] > [expr.rel] > [expr.eq] > [expr.bit.and] > [expr.xor]
  // > [expr.or] > [expr.log.and] > [expr.log.or] > [expr.cond]
  OBL(PREC_mul == PREC_div && PREC_div == PREC_mod, "C07.precedence: * / % share one level");
  OBL(PREC_add == PREC_sub && PREC_mul > PREC_add, "C07.precedence: * / % bind tighter than + -");
  OBL(PREC_LSHIFT == PREC_RSHIFT && PREC_add > PREC_LSHIFT, "C07.precedence: + - bind tighter than << >>");
  OBL(PREC_LSHIFT > PREC_SPACESHIP, "C07.precedence: << >> bind tighter than <=>");
  OBL(PREC_lt == PREC_gt && PREC_gt == PREC_LECOMPARE && PREC_LECOMPARE == PREC_GECOMPARE && PREC_SPACESHIP > PREC_lt, "C07.precedence: <=> binds tighter than < > <= >=, which share one level");
  OBL(PREC_EQCOMPARE == PREC_NECOMPARE && PREC_lt > PREC_EQCOMPARE, "C07.precedence: relational operators bind tighter than == !=");
  OBL(PREC_EQCOMPARE > PREC_bitand, "C07.precedence: == != bind tighter than &");
  OBL(PREC_bitand > PREC_xor, "C07.precedence: & binds tighter than ^");
  OBL(PREC_xor > PREC_bitor, "C07.precedence: ^ binds tighter than |");
  OBL(PREC_bitor > PREC_ANDAND, "C07.precedence: | binds tighter than &&");
  OBL(PREC_ANDAND > PREC_OROR, "C07.precedence: && binds tighter than ||");
  OBL(PREC_OROR > PREC_cond && PREC_cond > PREC_comma, "C07.precedence: || binds tighter than ?:, and ?: tighter than the comma");
  OBL(PREC_UNARY > PREC_mul && PREC_tilde == PREC_UNARY, "C07.precedence: the prefix operators bind tighter than every binary operator");
  VU_REACHED();
}
void h_associativity_is_cpp() {
  OBL(ASSOC_mul == 'L' && ASSOC_div == 'L' && ASSOC_mod == 'L' && ASSOC_add == 'L' && ASSOC_sub == 'L' && ASSOC_LSHIFT == 'L' && ASSOC_RSHIFT == 'L', "C07.associativity: arithmetic and shift operators group left to right (8 - 4 - 2 is 2, 64 >> 2 >> 1 is 8)");
  OBL(ASSOC_lt == 'L' && ASSOC_gt == 'L' && ASSOC_LECOMPARE == 'L' && ASSOC_GECOMPARE == 'L' && ASSOC_EQCOMPARE == 'L' && ASSOC_NECOMPARE == 'L' && ASSOC_SPACESHIP == 'L', "C07.associativity: comparisons group left to right");
  OBL(ASSOC_bitand == 'L' && ASSOC_xor == 'L' && ASSOC_bitor == 'L' && ASSOC_ANDAND == 'L' && ASSOC_OROR == 'L', "C07.associativity: bitwise and logical operators group left to right");
  OBL(ASSOC_cond == 'R' && ASSOC_UNARY == 'R', "C07.associativity: ?: and the prefix operators group right to left (a ? b : c ? d : e)");
  VU_REACHED();
}
void h_actions_build_the_written_operator() {
  OBL(ACTION_mul && ACTION_div && ACTION_mod && ACTION_add && ACTION_sub && ACTION_LSHIFT && ACTION_RSHIFT && ACTION_bitand && ACTION_xor && ACTION_bitor, "C07.actions: x OP y builds the node (OP, x, y) for the arithmetic, shift and bitwise operators, in every constant-expression nonterminal");
  OBL(ACTION_ANDAND && ACTION_OROR && ACTION_EQCOMPARE && ACTION_NECOMPARE && ACTION_LECOMPARE && ACTION_GECOMPARE && ACTION_SPACESHIP && ACTION_lt, "C07.actions: x OP y builds the node (OP, x, y) for the logical and comparison operators");
  OBL(UNARYPREC_not && UNARYPREC_tilde && UNARYPREC_sub && UNARYPREC_add, "C07.actions: every prefix-operator production is given the precedence of UNARY (so -a * b is (-a) * b)");
  VU_REACHED();
}
