#!/usr/bin/env python3
"""Derives from cppBison.yxx (a) the precedence level and associativity bison assigns to every operator token (order of
the %left/%right/%nonassoc lines), (b) for every production `<expr> TOK <expr>` of the three constant-expression
nonterminals whether its action builds `new CPPExpression(TOK, $1, $3)` (same token, operands in source order), and
(c) that every prefix-operator production carries %prec UNARY.  Writes prec_gen.h."""
import re, sys, os
repo, work = sys.argv[1], sys.argv[2]
g = open(os.path.join(repo, "src/cppparser/cppBison.yxx")).read()
head = g[:g.index("\n%%")]
level, assoc = {}, {}
n = 0
for m in re.finditer(r"(?m)^%(left|right|nonassoc)\s+(.*)$", head):
    n += 1
    for tok in re.findall(r"'(?:\\.|[^'])'|[A-Z_][A-Z_0-9]*", m.group(2)):
        level[tok] = n; assoc[tok] = m.group(1)
NAMES = {"'*'": "mul", "'/'": "div", "'%'": "mod", "'+'": "add", "'-'": "sub", "'|'": "bitor", "'^'": "xor", "'&'": "bitand",
         "'<'": "lt", "'>'": "gt", "'?'": "cond", "':'": "colon", "'='": "assign", "','": "comma", "'~'": "tilde", "'!'": "not",
         "'('": "lparen", "'['": "lbracket", "'.'": "dot"}
def ident(tok):
    return NAMES.get(tok, re.sub(r"\W", "_", tok))
body = g[g.index("\n%%"):]
binary_ok, binary_seen, unary_prec = {}, {}, {}
for nt in ("const_expr", "no_angle_bracket_const_expr", "formal_const_expr"):
    m = re.search(r"(?m)^%s:\n(.*?)^        ;" % nt, body, re.S)
    if not m:
        print("nonterminal %s not found" % nt); sys.exit(1)
    alts = re.split(r"(?m)^        \| ", m.group(1))
    for a in alts:
        first = a.strip().split("\n")[0]
        mb = re.match(r"^(\w+) ('(?:\\.|[^'])'|[A-Z_]+) (\w+)\s*$", first)
        if mb and mb.group(1) == nt and mb.group(3) in (nt, "const_expr", "formal_const_expr", "no_angle_bracket_const_expr"):
            tok = mb.group(2)
            ok = re.search(r"new CPPExpression\(\s*%s\s*,\s*\$1\s*,\s*\$3\s*\)" % re.escape(tok), a) is not None
            binary_seen.setdefault(tok, []).append(nt)
            binary_ok[tok] = binary_ok.get(tok, True) and ok
        mu = re.match(r"^('(?:\\.|[^'])') (\w+)\s*(%prec (\w+))?\s*$", first)
        if mu and mu.group(2) == nt:
            unary_prec.setdefault(mu.group(1), set()).add(mu.group(4) or "(none)")
with open(os.path.join(work, "prec_gen.h"), "w") as o:
    o.write("// generated from src/cppparser/cppBison.yxx by gen.py\n")
    for tok in sorted(level):
        o.write("#define PREC_%s %d\n#define ASSOC_%s '%s'\n" % (ident(tok), level[tok], ident(tok), assoc[tok][0].upper()))
    for tok in sorted(binary_seen):
        o.write("#define ACTION_%s %d   /* `x %s y` builds CPPExpression(%s, x, y) in %s */\n" % (ident(tok), 1 if binary_ok[tok] else 0, tok, tok, "/".join(binary_seen[tok])))
        o.write("#define NTS_%s %d\n" % (ident(tok), len(binary_seen[tok])))
    for tok in sorted(unary_prec):
        o.write("#define UNARYPREC_%s %d   /* every prefix production of %s carries %%prec UNARY: %s */\n" % (ident(tok), 1 if unary_prec[tok] == {"UNARY"} else 0, tok, sorted(unary_prec[tok])))
print("levels=%d binary=%s unary=%s" % (n, sorted(binary_seen), sorted(unary_prec)))
