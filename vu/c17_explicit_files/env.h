// Environment of the "-srcdir / explicit files / parse" block of main() in interrogate.cxx (skeletons of the free variables).
// A path is an abstract pair (text identity, the working directory it was made absolute against).
#ifndef C17_ENV_H
#define C17_ENV_H
#include "vu_common.h"
#include <string>
#include <iostream>
#include <set>
#include "vstl_globals.h"
using std::cerr;
// ghost: the process working directory (changes on chdir)
static int g_cwd;
enum { VU_MAXARGS = 3 };
// what was recorded about the i-th command-line file
static int g_abs_cwd[VU_MAXARGS + 1], g_parse_cwd[VU_MAXARGS + 1]; static int g_abs_calls, g_parse_calls, g_inserted, g_inserted_canonical;
static bool g_chdir_ok, g_parse_ok;
class Filename {
public:
  int _arg;          // which argv entry this name came from (0: none)
  int _abs_cwd;      // the working directory against which it was made absolute (-1: still relative)
  bool _canonical;   // symbolic links resolved (make_canonical), the form in which handle_include_directive looks names up
  bool _nonempty;
  Filename() : _arg(0), _abs_cwd(-1), _canonical(false), _nonempty(false) {}
  static Filename from_os_specific(const char *s);
  bool operator!=(const char *s) const { return _nonempty; }       // compared with "" only
  bool chdir() const { if (!g_chdir_ok) return false; g_cwd = g_cwd + 1; return true; }
  void set_text() {}
  std::string get_basename() const { return std::string(); }
  bool make_canonical() { make_absolute(); _canonical = true; return true; }
  void make_absolute() { _abs_cwd = g_cwd; if (_arg >= 1 && _arg <= VU_MAXARGS) g_abs_cwd[_arg] = g_cwd; g_abs_calls++; }
  std::string to_os_generic() const { return std::string(); }
  bool operator<(const Filename &o) const { return _arg < o._arg; }
};
inline std::ostream &operator<<(std::ostream &out, const Filename &n) { return out << "f"; }
static char *g_argv_store[VU_MAXARGS + 2];
inline Filename Filename::from_os_specific(const char *s) { Filename f; for (int i = 1; i <= VU_MAXARGS; i++) if (s == g_argv_store[i]) f._arg = i; f._nonempty = true; return f; }
class ExplicitFiles { public: void insert(const Filename &f) { g_inserted++; if (f._canonical) g_inserted_canonical++; } };
class CPPParser { public: ExplicitFiles _explicit_files;
  // parse_file resolves a relative name against the working directory at the time of the call
  bool parse_file(const Filename &f) { if (f._arg >= 1 && f._arg <= VU_MAXARGS) g_parse_cwd[f._arg] = g_cwd; g_parse_calls++; return g_parse_ok; } };
class InterrogateBuilder { public: void add_source_file(const std::string &s) {} };
#endif
