// VU c17_explicit_files: the block of main() in interrogate.cxx between the -srcdir chdir and the parse loop (R5).  The set
// of explicitly named files (parser._explicit_files, which decides what is a command-line file: S_local for C04, the
// starting point of every include lookup for C17) must name the files that are then parsed: both are resolved against the
// same working directory, the -srcdir when one is given.
#include "env.h"
namespace igate {
Filename source_file_directory, output_code_filename, output_data_filename, output_text_filename;
std::string output_data_basename;
bool output_function_names, true_wrapper_names, build_c_wrappers, build_python_wrappers, build_python_obj_wrappers, build_python_native;
CPPParser parser; InterrogateBuilder builder;
//@block src/interrogate/interrogate.cxx "start=  // If requested, change directory to the source-file directory." "end=  // Now that we've parsed all the source code, change the way things are" "head=void vu_main_files(int argc, char **argv, int i)" include_end=0
}
extern "C" void exit(int status) { __CPROVER_assume(false); }     // a reported failure: the path ends

void h_explicit_files_are_the_parsed_files() {
  int vin_nfiles = nondet_int(); __CPROVER_assume(vin_nfiles >= 1 && vin_nfiles <= VU_MAXARGS);
  static char names[VU_MAXARGS + 2][2];
  for (int i = 0; i <= VU_MAXARGS + 1; i++) g_argv_store[i] = names[i];
  g_argv_store[vin_nfiles + 1] = 0;
  igate::source_file_directory._nonempty = nondet_bool();
  g_chdir_ok = nondet_bool(); g_parse_ok = nondet_bool(); g_cwd = 0; g_abs_calls = g_parse_calls = g_inserted = g_inserted_canonical = 0;
  for (int i = 0; i <= VU_MAXARGS; i++) { g_abs_cwd[i] = -1; g_parse_cwd[i] = -2; }
  igate::output_function_names = nondet_bool(); igate::true_wrapper_names = nondet_bool();
  igate::build_c_wrappers = nondet_bool(); igate::build_python_wrappers = nondet_bool(); igate::build_python_obj_wrappers = nondet_bool(); igate::build_python_native = nondet_bool();
  igate::vu_main_files(vin_nfiles + 1, g_argv_store, 0);
  // the block returned: every file was parsed
  OBL(g_inserted == vin_nfiles && g_parse_calls == vin_nfiles, "C17.explicit_files: every command-line file is recorded as explicit and parsed, once");
  for (int i = 1; i <= VU_MAXARGS; i++) if (i <= vin_nfiles)
    OBL(g_abs_cwd[i] == g_parse_cwd[i], "C17.explicit_files: a command-line file is made absolute against the same working directory (the -srcdir, if given) against which it is then opened, so the recorded explicit file is the file that is parsed");
  OBL(g_inserted_canonical == g_inserted, "C17.explicit_files: the explicit files are recorded under their canonical names (symbolic links resolved), the form under which an included file is looked up in the set: a file named through a symlinked directory is still the user's own");
  OBL(!igate::source_file_directory._nonempty || g_cwd == 1, "C17.explicit_files: with -srcdir the files are read from that directory");
  VU_REACHED();
}
