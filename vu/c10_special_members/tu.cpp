// VU c10_special_members: CPPStructType::is_destructible(min_vis) and is_default_constructible(min_vis), one step over bases
// and members, against the rules of [class.dtor] / [class.default.ctor].  B mode (<= 2 bases, <= 2 data members).
#define private public
#define protected public
#include "vu_common.h"
//@headers src/dtoolbase src/dtoolutil src/cppparser
//@shadow filename.h dSearchPath.h
//@hdrsubst cpp*.h except=cppDeclaration.h "from=(?m)^\s*virtual CPP\w+ \*as_\w+\(\);\s*$" to=
//@hdrsubst cpp*.h "from=\bvirtual\s+" to=
// the recursive member std::vector<ExpansionNode> cannot be modelled by the array-based vstl vector (a class containing
// an array of itself); no kernel of this VU touches macro expansion nodes
//@hdrsubst cppManifest.h "from=std::vector<ExpansionNode> _nested;" "to=ExpansionNode *_nested_vu_unused;"
//@hdrsubst cppManifest.h "from=ExpansionNode\(std::vector<ExpansionNode> nested[^;]*;" to=
// default arguments that are class temporaries crash the front end (declaration of CPPManifest::expand, not a kernel)
//@hdrsubst cpp*.h "from= = (vector_string|Ignores|CPPManifest::Ignores|YYSTYPE)\(\)" to=
//@hdrinsert cppStructType.h after="bool is_destructible(CPPVisibility min_vis) const;" text="bool is_destructible__body(CPPVisibility min_vis) const; bool is_default_constructible__body(CPPVisibility min_vis) const; bool is_copy_constructible__body(CPPVisibility min_vis) const;"
//@hdrinsert cppStructType.h after="void get_pure_virtual_funcs(VFunctions &funcs) const;" text="void get_pure_virtual_funcs__body(VFunctions &funcs) const; CPPInstance *get_default_constructor__body() const;"
//@bison src/cppparser/cppBison.yxx cppBison.h
#include "dtoolbase.h"
#include "cppStructType.h"
#include "cppScope.h"
#include "cppInstance.h"
#include "cppFunctionGroup.h"
#include "cppBison.h"
#include <ctype.h>
#include "vstl_globals.h"


// ---- ghost description of the class under judgement
#ifndef VU_NB
#define VU_NB 2
#endif
enum { NB = VU_NB, NM = VU_NB };
static CPPStructType *g_self, *g_base[NB]; static bool g_base_is_struct[NB];
static bool vin_base_dtor_ok[NB], vin_base_ctor_ok[NB];       // answers of the bases (asked at V_protected)
static int g_base_asked_vis[NB]; static bool g_base_asked_wrong;
static CPPInstance *g_member[NM]; static CPPType *g_member_type[NM];
static bool vin_member_type_dtor_ok[NM], vin_member_type_ctor_ok[NM];
static bool vin_member_const_scalar[NM];      // the member is of const-qualified non-class type (e.g. `const int x;`)
static CPPInstance *g_dtor, *g_default_ctor, *g_copy_ctor, *g_move_ctor, *g_move_assign; static CPPFunctionGroup *g_ctors; static bool vin_abstract;
static bool vin_base_copy_ok[NB], vin_member_type_copy_ok[NM];

// ---- callees outside the kernel (contracts in replace form)
CPPInstance *CPPStructType::get_destructor() const { return g_dtor; }
CPPInstance *CPPStructType::get_default_constructor() const { return g_default_ctor; }
CPPFunctionGroup *CPPStructType::get_constructor() const { return g_ctors; }
CPPInstance *CPPStructType::get_copy_constructor() const { return g_copy_ctor; }
CPPInstance *CPPStructType::get_move_constructor() const { return g_move_ctor; }
CPPInstance *CPPStructType::get_move_assignment_operator() const { return g_move_assign; }
bool CPPStructType::is_abstract() const { return vin_abstract; }
class CPPConstType;
static bool vin_member_const_class[NM];       // the member is of const-qualified class type (e.g. `const K k;`)
bool CPPType::is_const() const { for (int i = 0; i < NM; i++) if (this == g_member_type[i]) return vin_member_const_scalar[i] || vin_member_const_class[i]; return false; }
static CPPStructType *vu_member_class_type(CPPType *t) { for (int i = 0; i < NM; i++) if (t == g_member_type[i]) return vin_member_const_class[i] ? (CPPStructType *)t : (CPPStructType *)0; return (CPPStructType *)0; }
static CPPConstType *vu_as_const_type(CPPType *t) { for (int i = 0; i < NM; i++) if (t == g_member_type[i]) return vin_member_const_scalar[i] ? (CPPConstType *)t : (CPPConstType *)0; return (CPPConstType *)0; }
static CPPStructType *vu_as_struct_type(CPPType *t) { for (int i = 0; i < NB; i++) if ((CPPType *)g_base[i] == t) return g_base_is_struct[i] ? g_base[i] : (CPPStructType *)0; return (CPPStructType *)0; }
// the recursive calls on the bases: record the visibility asked for, answer from the ghost description
bool CPPStructType::is_destructible(CPPVisibility min_vis) const {
  for (int i = 0; i < NB; i++) if (this == g_base[i]) { g_base_asked_vis[i] = min_vis; if (min_vis != V_protected) g_base_asked_wrong = true; return vin_base_dtor_ok[i]; }
  __CPROVER_assert(false, "C10.model: only bases are asked recursively"); return false;
}
bool CPPStructType::is_default_constructible(CPPVisibility min_vis) const {
  for (int i = 0; i < NB; i++) if (this == g_base[i]) { if (min_vis != V_protected) g_base_asked_wrong = true; return vin_base_ctor_ok[i]; }
  __CPROVER_assert(false, "C10.model: only bases are asked recursively"); return false;
}
bool CPPStructType::is_copy_constructible(CPPVisibility min_vis) const {
  for (int i = 0; i < NB; i++) if (this == g_base[i]) { if (min_vis != V_protected) g_base_asked_wrong = true; return vin_base_copy_ok[i]; }
  __CPROVER_assert(false, "C10.model: only bases are asked recursively"); return false;
}
bool CPPType::is_copy_constructible() const { for (int i = 0; i < NM; i++) if (this == g_member_type[i]) return vin_member_type_copy_ok[i]; return nondet_bool(); }
bool CPPType::is_destructible() const { for (int i = 0; i < NM; i++) if (this == g_member_type[i]) return vin_member_type_dtor_ok[i]; return nondet_bool(); }
bool CPPType::is_default_constructible() const { for (int i = 0; i < NM; i++) if (this == g_member_type[i]) return vin_member_type_ctor_ok[i]; return nondet_bool(); }

//@extract src/cppparser/cppStructType.cxx CPPStructType::is_destructible ordinal=1 rename=__body "subst1=@\(\*di\)\._base->as_struct_type\(\)@vu_as_struct_type((*di)._base)@"
//@extract src/cppparser/cppStructType.cxx CPPStructType::is_default_constructible ordinal=1 rename=__body "subst1=@\(\*di\)\._base->as_struct_type\(\)@vu_as_struct_type((*di)._base)@" "osubst2=@instance->_type->remove_const\(\)->as_struct_type\(\)@vu_member_class_type(instance->_type)@"
//@extract src/cppparser/cppStructType.cxx CPPStructType::is_copy_constructible ordinal=1 rename=__body "subst1=@\(\*di\)\._base->as_struct_type\(\)@vu_as_struct_type((*di)._base)@"

// ---- virtual functions of the class and its bases, as get_virtual_funcs() collects them (callee): up to two functions that
// are not yet overridden here, each pure or not, each a destructor or not
#include "cppFunctionType.h"
static CPPInstance *g_vf[2]; static int vin_nvf; static CPPFunctionType *g_vf_type[2];
void CPPStructType::get_virtual_funcs(VFunctions &funcs) const { for (int i = 0; i < 2; i++) if (i < vin_nvf) funcs.push_back(g_vf[i]); }
static CPPFunctionType *vu_as_function_type(CPPType *t) { for (int i = 0; i < 2; i++) if (t == (CPPType *)g_vf_type[i]) return g_vf_type[i]; return (CPPFunctionType *)0; }
//@extract src/cppparser/cppStructType.cxx CPPStructType::get_pure_virtual_funcs rename=__body "subst1=@inst->_type->as_function_type\(\)@vu_as_function_type(inst->_type)@"
// ---- the declared constructors of the class (callee get_constructor): up to two, each with up to two parameters
#include "cppParameterList.h"
static CPPInstance *g_ctor_inst[2]; static CPPFunctionType *g_ctor_type[2];
static CPPFunctionType *vu_ctor_function_type(CPPType *t) { for (int i = 0; i < 2; i++) if (t == (CPPType *)g_ctor_type[i]) return g_ctor_type[i]; return (CPPFunctionType *)0; }
//@extract src/cppparser/cppStructType.cxx CPPStructType::get_default_constructor rename=__body "subst1=@inst->_type->as_function_type\(\)@vu_ctor_function_type(inst->_type)@"
static int vin_nb, vin_nm; static bool vin_member_static[NM], vin_member_has_init[NM];
static void make_class() {
  g_self = VU_NEW(CPPStructType);
  vin_nb = nondet_int(); vin_nm = nondet_int(); __CPROVER_assume(vin_nb >= 0 && vin_nb <= NB && vin_nm >= 0 && vin_nm <= NM);
  g_self->_derivation._n = vin_nb; g_self->_derivation._trunc = false;
  for (int i = 0; i < NB; i++) { g_base[i] = (CPPStructType *)vu_alloc(8);   /* identity only: never dereferenced (its judgement is a stub) */ g_base_is_struct[i] = nondet_bool(); g_self->_derivation._d[i]._base = (CPPType *)g_base[i]; g_base_asked_vis[i] = -1; }
  CPPScope *sc = VU_NEW(CPPScope); g_self->_scope = sc;
  sc->_variables._n = vin_nm;
  for (int i = 0; i < NM; i++) {
    g_member[i] = VU_NEW(CPPInstance); g_member_type[i] = (CPPType *)vu_alloc(8); g_member[i]->_type = g_member_type[i];
    vin_member_static[i] = nondet_bool(); vin_member_has_init[i] = nondet_bool(); vin_member_const_scalar[i] = nondet_bool(); vin_member_const_class[i] = !vin_member_const_scalar[i] && nondet_bool();
    g_member[i]->_storage_class = vin_member_static[i] ? CPPInstance::SC_static : 0;
    g_member[i]->_initializer = vin_member_has_init[i] ? (CPPExpression *)vu_alloc(8) : (CPPExpression *)0;   // (only tested against null)
    sc->_variables._d[i].second = g_member[i];
  }
  for (int i = 0; i < NB; i++) { vin_base_dtor_ok[i] = nondet_bool(); vin_base_ctor_ok[i] = nondet_bool(); vin_base_copy_ok[i] = nondet_bool(); }
  for (int i = 0; i < NM; i++) { vin_member_type_dtor_ok[i] = nondet_bool(); vin_member_type_ctor_ok[i] = nondet_bool(); vin_member_type_copy_ok[i] = nondet_bool(); }
  vin_abstract = nondet_bool();
  g_base_asked_wrong = false;
}
static CPPInstance *maybe_member_function(bool present, int vis, bool deleted) {
  if (!present) return 0;
  CPPInstance *f = VU_NEW(CPPInstance); f->_vis = (CPPVisibility)vis; f->_storage_class = deleted ? CPPInstance::SC_deleted : 0; return f;
}

void h_is_destructible() {
  make_class();
  bool vin_has_dtor = nondet_bool(), vin_dtor_deleted = nondet_bool(); int vin_dtor_vis = nondet_int(), vin_min_vis = nondet_int();
  __CPROVER_assume(vin_dtor_vis >= V_published && vin_dtor_vis <= V_private && vin_min_vis >= V_published && vin_min_vis <= V_private);
  g_dtor = maybe_member_function(vin_has_dtor, vin_dtor_vis, vin_dtor_deleted);
  bool r = g_self->is_destructible__body((CPPVisibility)vin_min_vis);
  // [class.dtor]: a user-declared destructor decides by its accessibility and deletedness; the implicit one is deleted
  // iff some base or non-static member cannot be destroyed from within the class (protected access to bases suffices)
  bool want;
  if (vin_has_dtor) want = vin_dtor_vis <= vin_min_vis && !vin_dtor_deleted;
  else {
    want = true;
    for (int i = 0; i < NB; i++) if (i < vin_nb && g_base_is_struct[i] && !vin_base_dtor_ok[i]) want = false;
    for (int i = 0; i < NM; i++) if (i < vin_nm && !vin_member_static[i] && !vin_member_type_dtor_ok[i]) want = false;
  }
  OBL(r == want, "C10.is_destructible: equals the C++ rule (user destructor: accessible and not deleted; implicit: every base and non-static member destructible)");
  OBL(!g_base_asked_wrong, "C10.is_destructible: base classes are judged with the access a derived class has (protected), whatever access the caller asked for");
  VU_REACHED();
}
void h_is_default_constructible() {
  make_class();
#ifdef KF_C10_CONST_MEMBER
  for (int i = 0; i < NM; i++) __CPROVER_assume(!(i < vin_nm && vin_member_const_scalar[i] && !vin_member_static[i] && !vin_member_has_init[i]));
#endif
  bool vin_has_dc = nondet_bool(), vin_dc_deleted = nondet_bool(), vin_has_other_ctor = nondet_bool(); int vin_dc_vis = nondet_int(), vin_min_vis = nondet_int();
  __CPROVER_assume(vin_dc_vis >= V_published && vin_dc_vis <= V_private && vin_min_vis >= V_published && vin_min_vis <= V_private);
  vin_abstract = nondet_bool();
  g_default_ctor = maybe_member_function(vin_has_dc, vin_dc_vis, vin_dc_deleted);
  g_ctors = (vin_has_dc || vin_has_other_ctor) ? (CPPFunctionGroup *)vu_alloc(8) : (CPPFunctionGroup *)0;
  bool r = g_self->is_default_constructible__body((CPPVisibility)vin_min_vis);
  bool want;
  // [class.abstract]: no complete object of an abstract class; as a base-class subobject (the question a derived class
  // asks, with protected access) an abstract class is constructed like any other
  if (vin_abstract && vin_min_vis < V_protected) want = false;
  else if (vin_has_dc) want = vin_dc_vis <= vin_min_vis && !vin_dc_deleted;
  else if (vin_has_other_ctor) want = false;
  else {
    want = true;
    for (int i = 0; i < NB; i++) if (i < vin_nb && g_base_is_struct[i] && !vin_base_ctor_ok[i]) want = false;
    for (int i = 0; i < NM; i++) if (i < vin_nm && !vin_member_static[i] && !vin_member_has_init[i] && !vin_member_type_ctor_ok[i]) want = false;
    // [class.default.ctor]/2: a const-qualified non-class member without initializer deletes the implicit default constructor
    for (int i = 0; i < NM; i++) if (i < vin_nm && !vin_member_static[i] && !vin_member_has_init[i] && vin_member_const_scalar[i]) want = false;
  }

  OBL(r == want, "C10.is_default_constructible: equals the C++ rule (never a complete object of an abstract class, but an abstract base is constructible as a base; user default constructor: accessible and not deleted; other constructors: none implicit; implicit: every base and every non-static member without initializer default-constructible)");
  OBL(!g_base_asked_wrong, "C10.is_default_constructible: base classes are judged with protected access");
  VU_REACHED();
}

void h_is_copy_constructible() {
  make_class();
  bool vin_has_cc = nondet_bool(), vin_cc_deleted = nondet_bool(), vin_has_move_ctor = nondet_bool(), vin_has_move_assign = nondet_bool();
  bool vin_has_dtor = nondet_bool(), vin_dtor_deleted = nondet_bool();
  int vin_cc_vis = nondet_int(), vin_dtor_vis = nondet_int(), vin_min_vis = nondet_int();
  __CPROVER_assume(vin_cc_vis >= V_published && vin_cc_vis <= V_private && vin_dtor_vis >= V_published && vin_dtor_vis <= V_private && vin_min_vis >= V_published && vin_min_vis <= V_private);
  vin_abstract = nondet_bool();
  g_copy_ctor = maybe_member_function(vin_has_cc, vin_cc_vis, vin_cc_deleted);
  g_move_ctor = maybe_member_function(vin_has_move_ctor, V_public, false); g_move_assign = maybe_member_function(vin_has_move_assign, V_public, false);
  g_dtor = maybe_member_function(vin_has_dtor, vin_dtor_vis, vin_dtor_deleted);
  bool r = g_self->is_copy_constructible__body((CPPVisibility)vin_min_vis);
  // [class.abstract], [class.copy.ctor]: no complete object of an abstract class (an abstract base is copied as part of a
  // derived object); a declared copy constructor decides by access and deletedness; the implicit one is deleted if the
  // class declares a move constructor or move assignment operator, if the destructor is deleted or inaccessible, or if a
  // base or non-static member cannot be copied
  bool want;
  if (vin_abstract && vin_min_vis < V_protected) want = false;
  else if (vin_has_cc) want = vin_cc_vis <= vin_min_vis && !vin_cc_deleted;
  else if (vin_has_move_ctor || vin_has_move_assign) want = false;
  else if (vin_has_dtor && (vin_dtor_vis > vin_min_vis || vin_dtor_deleted)) want = false;
  else {
    want = true;
    for (int i = 0; i < NB; i++) if (i < vin_nb && g_base_is_struct[i] && !vin_base_copy_ok[i]) want = false;
    for (int i = 0; i < NM; i++) if (i < vin_nm && !vin_member_static[i] && !vin_member_type_copy_ok[i]) want = false;
  }
  OBL(r == want, "C10.is_copy_constructible: equals the C++ rule (never a complete object of an abstract class, but an abstract base is copied as a base; declared copy constructor: accessible and not deleted; implicit: deleted by a declared move operation, an unusable destructor, or a base or non-static member that cannot be copied)");
  OBL(!g_base_asked_wrong, "C10.is_copy_constructible: base classes are judged with protected access");
  VU_REACHED();
}

// [class.abstract], [class.dtor]: a class is abstract iff it has a pure virtual function that no final overrider replaces.
// A destructor is never inherited: the destructor of this class - declared or implicit - overrides a base's (pure) virtual
// destructor, so only this class's OWN pure virtual destructor counts.
void h_get_pure_virtual_funcs() {
  g_self = VU_NEW(CPPStructType);
  vin_nvf = nondet_int(); __CPROVER_assume(vin_nvf >= 0 && vin_nvf <= 2);
  bool vin_pure[2], vin_is_dtor[2]; bool vin_own_dtor_listed = nondet_bool();
  for (int i = 0; i < 2; i++) {
    g_vf[i] = VU_NEW(CPPInstance); g_vf_type[i] = VU_NEW(CPPFunctionType); g_vf[i]->_type = (CPPType *)g_vf_type[i];
    vin_pure[i] = nondet_bool(); vin_is_dtor[i] = nondet_bool();
    g_vf[i]->_storage_class = (nondet_int() & ~CPPInstance::SC_pure_virtual) | (vin_pure[i] ? CPPInstance::SC_pure_virtual : 0);
    g_vf_type[i]->_flags = (nondet_int() & ~CPPFunctionType::F_destructor) | (vin_is_dtor[i] ? CPPFunctionType::F_destructor : 0);
  }
  // the class's own declared destructor, if any, is one of the listed functions or a function that is not listed
  g_dtor = vin_own_dtor_listed ? g_vf[0] : (nondet_bool() ? (CPPInstance *)0 : VU_NEW(CPPInstance));
  CPPStructType::VFunctions out;
  g_self->get_pure_virtual_funcs__body(out);
  __CPROVER_assume(!out._trunc);
  size_t want = 0; bool in_out[2];
  for (int i = 0; i < 2; i++) { in_out[i] = i < vin_nvf && vin_pure[i] && !(vin_is_dtor[i] && g_vf[i] != g_dtor); if (in_out[i]) want++; }
  OBL(out._n == want, "C10.get_pure_virtual_funcs: the pure virtual functions of a class are the not-yet-overridden virtual functions marked pure, except a pure virtual destructor inherited from a base (the class's own destructor, declared or implicit, overrides it)");
  for (int i = 0; i < 2; i++) if (in_out[i]) { bool found = false; for (size_t k = 0; k < 2; k++) if (k < out._n && out._d[k] == g_vf[i]) found = true; OBL(found, "C10.get_pure_virtual_funcs: every remaining pure virtual function is reported"); }
  VU_REACHED();
}

// [class.default.ctor]: a default constructor is a constructor that can be called without an argument: it has no parameter,
// or every parameter has a default argument (in well-formed code: the first one has)
void h_get_default_constructor() {
  g_self = VU_NEW(CPPStructType);
  CPPFunctionGroup *grp = VU_NEW(CPPFunctionGroup);
  size_t vin_nctors = nondet_size_t(); __CPROVER_assume(vin_nctors <= 2);
  grp->_instances._n = vin_nctors; grp->_instances._trunc = false;
  bool callable_without_args[2];
  for (int i = 0; i < 2; i++) {
    g_ctor_inst[i] = VU_NEW(CPPInstance); g_ctor_type[i] = VU_NEW(CPPFunctionType); g_ctor_inst[i]->_type = (CPPType *)g_ctor_type[i];
    CPPParameterList *pl = VU_NEW(CPPParameterList); g_ctor_type[i]->_parameters = pl;
    size_t np = nondet_size_t(); __CPROVER_assume(np <= 2); pl->_parameters._n = np; pl->_parameters._trunc = false;
    bool d0 = nondet_bool(), d1 = nondet_bool(); __CPROVER_assume(!d0 || d1 || np < 2);      // well-formed: a default argument is followed by default arguments only
    CPPInstance *p0 = VU_NEW(CPPInstance), *p1 = VU_NEW(CPPInstance);
    p0->_initializer = d0 ? (CPPExpression *)vu_alloc(8) : (CPPExpression *)0; p1->_initializer = d1 ? (CPPExpression *)vu_alloc(8) : (CPPExpression *)0;
    pl->_parameters._d[0] = p0; pl->_parameters._d[1] = p1;
    callable_without_args[i] = np == 0 || d0;
    grp->_instances._d[i] = g_ctor_inst[i];
  }
  g_ctors = nondet_bool() ? grp : (CPPFunctionGroup *)0;
  CPPInstance *r = g_self->get_default_constructor__body();
  CPPInstance *want = 0;
  if (g_ctors) { for (int i = 1; i >= 0; i--) if ((size_t)i < vin_nctors && callable_without_args[i]) want = g_ctor_inst[i]; }
  OBL(r == want, "C10.get_default_constructor: the default constructor is the declared constructor that can be called without an argument (no parameter, or default arguments from the first one on); S(int id, int flags = 0) is not one");
  VU_REACHED();
}
