"""Native replay for the C10 units: a header with the witnesses of the C10 obligations (abstract base, final overrider,
declared/defaulted/deleted special members, move operations) is run through the interrogate built from the working tree;
the constructors recorded in the database must be those C++ provides."""
import os, re, sys, tempfile, shutil
sys.path.insert(0, os.path.join(os.path.dirname(os.path.realpath(__file__)), "..", "..", "lib"))
import native

HEADER = """struct B { virtual void f() = 0; };
struct D : B { void f(); };
struct DF : B { void f() final; };
struct DO : B { void f() override; };
struct StillAbstract : B { };
struct P { protected: P(const P &) = default; public: P(); };
struct Q { Q(const Q &) = delete; Q(); };
struct M { M(M &&); M(); };
struct ProtBaseDtor { protected: ~ProtBaseDtor(); };
struct DerivedFromProtDtor : ProtBaseDtor { };
struct PVD { virtual ~PVD() = 0; };
struct FromPVD : PVD { };
struct VarBase { virtual void log(const char *) = 0; };
struct VarDerived : VarBase { void log(const char *, ...); };
struct NE { virtual void f(int) = 0; virtual int g() const = 0; };
struct NEDerived : NE { void f(int) noexcept override; auto g() const -> int; };
struct NEStill : NE { void f(int); int g(); };
struct CM { const int x; };
struct CMI { const int x = 3; };
"""
# class -> (implicit default ctor exported, implicit copy ctor exported)
EXPECT = {"B": (False, False), "D": (True, True), "DF": (True, True), "DO": (True, True), "StillAbstract": (False, False),
          "P": (False, False), "Q": (False, False), "M": (False, False), "DerivedFromProtDtor": (True, True), "PVD": (False, False), "FromPVD": (True, True), "VarDerived": (False, False), "NEDerived": (True, True), "NEStill": (False, False), "CM": (False, True), "CMI": (True, True)}


def replay(ctx):
    nb = native.NativeBuild(targets=("interrogate",))
    try:
        if not nb.build():
            return {"reproduced": False, "error": "native build failed", "log": nb.log[-1500:]}
        d = tempfile.mkdtemp(prefix="verif-replay-", dir="/var/tmp")
        open(os.path.join(d, "r.h"), "w").write(HEADER)
        rc, out = native.sh(["timeout", "60", nb.bin("interrogate"), "-promiscuous", "-oc", "o.cxx", "-od", "o.in", "-module", "m", "-library", "l", "-python-native", "r.h"], stdin=b"", cwd=d)
        db = open(os.path.join(d, "o.in"), errors="replace").read() if os.path.exists(os.path.join(d, "o.in")) else ""
        shutil.rmtree(d, ignore_errors=True)
        if not db:
            return {"reproduced": False, "error": "interrogate wrote no database", "output": out[-400:]}
        bad = []
        for cls, (dc, cc) in EXPECT.items():
            got_dc = re.search(r"^inline %s::%s\(void\) = default;" % (cls, cls), db, re.M) is not None
            got_cc = re.search(r"^inline %s::%s\(%s const &\) = default;" % (cls, cls, cls), db, re.M) is not None
            if got_dc != dc:
                bad.append("%s: implicit default constructor %s, C++ %s one" % (cls, "exported" if got_dc else "not exported", "provides" if dc else "does not provide"))
            if got_cc != cc:
                bad.append("%s: implicit copy constructor %s, C++ %s one" % (cls, "exported" if got_cc else "not exported", "provides" if cc else "does not provide"))
        return {"reproduced": bool(bad), "input": HEADER, "cmd": "interrogate -promiscuous -od o.in r.h", "observed": "; ".join(bad) or "the synthesised constructors are those C++ provides"}
    finally:
        nb.close()
