"""Native replay for VUs c12_truncated and c12_read: the interrogate built from the working tree writes a database for a
sample header; every byte prefix of that file is loaded through the real libinterrogatedb (2 GB address-space limit, 5 s).
Reproduced if a prefix makes the loader hang or die, or if a proper prefix is rejected (error flag) but leaves records behind,
or is accepted although it is not the whole file."""
import os, sys, tempfile, shutil, subprocess, resource
sys.path.insert(0, os.path.join(os.path.dirname(os.path.realpath(__file__)), "..", "..", "lib"))
import native

HEADER = """struct Vec { Vec(); int x; float get_x() const; void set(int a, const char *name = "n"); enum Kind { K_a, K_b = 7 }; };
typedef Vec Alias; int global_fn(Vec *v, double d); extern int global_var; #define MANIFEST_ONE 1
template<class T> struct Holder { T t; }; typedef Holder<int> HolderInt;
"""
DRIVER = r'''
#include "interrogateDatabase.h"
#include "interrogate_request.h"
#include "interrogate_interface.h"
#include <iostream>
#include <cstring>
int main(int argc, char **argv) {
  InterrogateModuleDef *def = new InterrogateModuleDef; memset(def, 0, sizeof(*def));
  def->database_filename = argv[1];
  interrogate_request_module(def);
  int types = interrogate_number_of_types();
  bool error = interrogate_error_flag();
  std::cout << (error ? 1 : 0) << " " << types << " " << interrogate_number_of_functions() << " " << interrogate_number_of_manifests() << " " << interrogate_number_of_globals() << "\n";
  return 0;
}
'''


def _limit():
    resource.setrlimit(resource.RLIMIT_AS, (2 << 30, 2 << 30))


def replay(ctx):
    nb = native.NativeBuild(targets=("interrogatedb", "interrogate"))
    try:
        if not nb.build():
            return {"reproduced": False, "error": "native build failed", "log": nb.log[-1500:]}
        exe = nb.compile_driver(DRIVER)
        if not exe:
            return {"reproduced": False, "error": "driver did not compile", "log": nb.log[-1500:]}
        d = tempfile.mkdtemp(prefix="verif-replay-", dir="/var/tmp")
        open(os.path.join(d, "s.h"), "w").write(HEADER.replace(" #define", "\n#define"))
        rc, out = native.sh(["timeout", "60", nb.bin("interrogate"), "-promiscuous", "-oc", "o.cxx", "-od", "full.in", "-module", "m", "-library", "l", "-python-native", "s.h"], stdin=b"", cwd=d)
        full = os.path.join(d, "full.in")
        if not os.path.exists(full):
            shutil.rmtree(d, ignore_errors=True)
            return {"reproduced": False, "error": "interrogate wrote no database", "output": out[-400:]}
        data = open(full, "rb").read()
        whole = None
        bad = []
        for n in list(range(len(data), -1, -1)):
            p = os.path.join(d, "p.in")
            open(p, "wb").write(data[:n])
            try:
                r = subprocess.run([exe, p], capture_output=True, timeout=5, preexec_fn=_limit)
                if r.returncode != 0:
                    bad.append("prefix %d: %s" % (n, native.describe_exit(r.returncode)))
                    continue
                f = r.stdout.decode().split()
                if n == len(data):
                    whole = f
                elif f and f[0] == "1" and any(x != "0" for x in f[1:]):
                    bad.append("prefix %d rejected but records stay: %s" % (n, " ".join(f)))
                elif f and f[0] == "0" and f != whole and data[n:].strip():
                    bad.append("prefix %d accepted as a different database: %s" % (n, " ".join(f)))
            except subprocess.TimeoutExpired:
                bad.append("prefix %d: timeout" % n)
            if len(bad) >= 8:
                break
        # what a garbage count does depends on what the stack happens to hold: the prefixes that end at a line boundary are
        # loaded once more under valgrind memcheck, which reports the use of an uninitialised value directly
        if not bad and shutil.which("valgrind"):
            cuts = [i + 1 for i, b in enumerate(data) if b == 10][:-1]
            for n in cuts:
                open(p, "wb").write(data[:n])
                try:
                    r = subprocess.run(["valgrind", "-q", "--error-exitcode=99", exe, p], capture_output=True, timeout=60)
                    if r.returncode == 99:
                        msg = [l for l in r.stderr.decode(errors="replace").splitlines() if "==" in l][:3]
                        bad.append("prefix %d under valgrind: %s" % (n, " / ".join(x.split("== ", 1)[-1] for x in msg)))
                except subprocess.TimeoutExpired:
                    bad.append("prefix %d under valgrind: timeout" % n)
                if len(bad) >= 3:
                    break
        shutil.rmtree(d, ignore_errors=True)
        return {"reproduced": bool(bad), "cmd": "interrogate -od full.in s.h; load every byte prefix of full.in (%d bytes)" % len(data),
                "observed": "; ".join(bad) or "every prefix is rejected cleanly or is the whole database (%s)" % " ".join(whole or [])}
    finally:
        nb.close()
