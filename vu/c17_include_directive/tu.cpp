// VU c17_include_directive: CPPPreprocessor::handle_include_directive.  The operand of #include - after macro expansion
// when it is not written in quotes or angle brackets - is looked up with the form it has (quote or angle search), a file
// named on the command line is the user's own, a #pragma once file is not read twice; and the directive is total: it may
// be the last thing of the top-level file (no current input file any more).
#define private public
#define protected public
#include "vu_common.h"
//@headers src/dtoolbase src/dtoolutil src/cppparser
//@shadow filename.h dSearchPath.h
//@hdrsubst cpp*.h except=cppDeclaration.h "from=(?m)^\s*virtual CPP\w+ \*as_\w+\(\);\s*$" to=
//@hdrsubst cpp*.h "from=\bvirtual\s+" to=
// the recursive member std::vector<ExpansionNode> cannot be modelled by the array-based vstl vector (a class containing
// an array of itself); no kernel of this VU touches macro expansion nodes
//@hdrsubst cppManifest.h "from=std::vector<ExpansionNode> _nested;" "to=ExpansionNode *_nested_vu_unused;"
//@hdrsubst cppManifest.h "from=ExpansionNode\(std::vector<ExpansionNode> nested[^;]*;" to=
// default arguments that are class temporaries crash the front end (declaration of CPPManifest::expand, not a kernel)
//@hdrsubst cpp*.h "from= = (vector_string|Ignores|CPPManifest::Ignores|YYSTYPE)\(\)" to=
// R20: the member std::vector<CPPToken> (CPPToken has no default constructor; the array-based vector needs one) is not
// touched by this kernel and becomes a pointer, so that a TYPED CPPPreprocessor object can be built by the real constructor
//@hdrsubst cppPreprocessor.h "from=std::vector<CPPToken> _saved_tokens;" "to=CPPToken *_saved_tokens_vu_unused;"
//@bison src/cppparser/cppBison.yxx cppBison.h
#include "dtoolbase.h"
#include "cppPreprocessor.h"
#include "cppBison.h"
#include <ctype.h>
#include "vstl_globals.h"


// ---- callees (replace form)
static int g_warnings;
void CPPPreprocessor::warning(const std::string &message, const YYLTYPE &loc) const { g_warnings++; }
CPPFile::CPPFile(const Filename &filename, const Filename &filename_as_referenced, Source source) : _filename(filename), _filename_as_referenced(filename_as_referenced), _source(source), _pragma_once(false) {}
//@extract src/cppparser/cppFile.cxx CPPFile::operator<
// macro expansion of an operand that is not written in quotes or brackets: it becomes the ghost expansion
static std::string g_expansion; static int g_expand_calls;
void CPPPreprocessor::expand_manifests(std::string &expr, bool expand_undefined, const CPPManifest::Ignores &ignores) const { g_expand_calls++; expr = g_expansion; }
static CPPManifest::Ignores *vu_no_ignores() { return VU_NEW(CPPManifest::Ignores); }
static int g_find_calls; static std::string g_find_name; static bool g_find_angle, g_find_answer; static int g_found_source;
bool CPPPreprocessor::find_include(Filename &filename, bool angle_quotes, CPPFile::Source &source) const { g_find_calls++; g_find_name = filename._filename; g_find_angle = angle_quotes; if (g_find_answer) source = (CPPFile::Source)g_found_source; return g_find_answer; }
static int g_push_calls; static int g_pushed_source; static bool g_push_ok; static bool g_pushed_canonical;
bool CPPPreprocessor::push_file(const CPPFile &file) { g_push_calls++; g_pushed_source = file._source; g_pushed_canonical = file._filename._canonical; return g_push_ok; }

//@extract src/cppparser/cppPreprocessor.cxx CPPPreprocessor::InputFile::InputFile
CPPPreprocessor::InputFile::~InputFile() {}
//@extract src/cppparser/cppPreprocessor.cxx CPPPreprocessor::CPPPreprocessor
//@extract src/cppparser/cppPreprocessor.cxx CPPPreprocessor::handle_include_directive r15 "subst1=@expand_manifests\(expr, false\)@expand_manifests(expr, false, *vu_no_ignores())@"

static CPPPreprocessor g_pp_obj;
static CPPPreprocessor::InputFile g_top, g_nested;
void h_include_directive() {
  // how the operand is written: "n", <n>, or a macro that expands to one of the two
  bool vin_macro = nondet_bool(), vin_angle = nondet_bool();
  std::string name; name += 'h';
  std::string spelled; spelled += vin_angle ? '<' : '"'; spelled += name; spelled += vin_angle ? '>' : '"';
  std::string vin_args; if (vin_macro) vin_args += 'M'; else vin_args = spelled;
  g_expansion = spelled; g_expand_calls = 0;
  // where the directive stands: in a nested file, in the top-level file, or on the last line of the top-level file, which
  // has been read to its end (and popped) by the time the directive is handled
  int vin_where = nondet_int(); __CPROVER_assume(vin_where >= 0 && vin_where <= 2);
  g_top._parent = 0; g_nested._parent = &g_top;
  g_pp_obj._infile = vin_where == 0 ? &g_nested : vin_where == 1 ? &g_top : (CPPPreprocessor::InputFile *)0;
  g_pp_obj._noangles = nondet_bool();
  g_find_answer = nondet_bool(); g_found_source = nondet_bool() ? CPPFile::S_alternate : CPPFile::S_system; g_find_calls = 0;
  bool vin_explicit = nondet_bool(), vin_once = nondet_bool();
  g_pp_obj._explicit_files._n = 0; if (vin_explicit) { Filename f(name); g_pp_obj._explicit_files.insert(f); }
  g_pp_obj._parsed_files._n = 0; if (vin_once) { Filename f(name); CPPFile seen(f, f, CPPFile::S_alternate); seen._pragma_once = nondet_bool(); vin_once = seen._pragma_once; g_pp_obj._parsed_files.insert(seen); }
  g_pp_obj._quote_includes._n = 0; g_pp_obj._angle_includes._n = 0;
  g_push_calls = 0; g_push_ok = nondet_bool(); g_warnings = 0;
  YYLTYPE loc;
  g_pp_obj.handle_include_directive(vin_args, loc);
  OBL(g_expand_calls == (vin_macro ? 1 : 0), "C17.include: only an operand that is not written in quotes or angle brackets is macro-expanded");
  OBL(g_find_calls == 1 && g_find_name == name, "C17.include: the named header is looked up once");
  OBL(g_find_angle == (vin_angle && !g_pp_obj._noangles), "C17.include: the form of the operand after macro expansion decides the search: <h> uses the angle-bracket path, \"h\" the quote search (with -noangles both use the quote search)");
  if (g_find_answer && !vin_once) {
    OBL(g_push_calls == 1 && g_pushed_canonical, "C17.include: a header that is found is read, under its canonical name");
    OBL(g_pushed_source == (vin_explicit ? CPPFile::S_local : g_found_source), "C17.include: a file named on the command line is the user's own wherever it was found; any other file keeps the origin find_include gave it");
  } else OBL(g_push_calls == 0, "C17.include: a header that is not found, or that was read before and has #pragma once, is not read");
  OBL(g_warnings == ((!g_find_answer || (!vin_once && !g_push_ok)) ? 1 : 0), "C17.include: exactly the headers that cannot be found or read are diagnosed");
  VU_REACHED();
}
