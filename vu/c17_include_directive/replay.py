"""Native replay for VU c17_include_directive: the witnesses of its obligations are fed to the parse_file built from the
working tree: an #include on the last line without a newline (top-level file), and a macro operand that expands to the angle
form while a same-named header sits next to the includer."""
import os, sys, tempfile, shutil
sys.path.insert(0, os.path.join(os.path.dirname(os.path.realpath(__file__)), "..", "..", "lib"))
import native


def replay(ctx):
    nb = native.NativeBuild(targets=("parse_file",))
    try:
        if not nb.build():
            return {"reproduced": False, "error": "native build failed", "log": nb.log[-1500:]}
        d = tempfile.mkdtemp(prefix="verif-replay-", dir="/var/tmp")
        os.makedirs(os.path.join(d, "sys"))
        open(os.path.join(d, "x.h"), "w").write("int from_local_x;\n")
        open(os.path.join(d, "sys", "x.h"), "w").write("int from_sys_x;\n")
        seen = []
        for name, text in (("quote", b'#include "x.h"'), ("angle", b"#include <x.h>")):
            open(os.path.join(d, "top.h"), "wb").write(text)          # no trailing newline
            rc, out = native.sh(["timeout", "20", nb.bin("parse_file"), "-S" + os.path.join(d, "sys"), "top.h"], stdin=b"", cwd=d)
            if rc < 0 or rc >= 124:
                seen.append("%s form on the last line without newline: %s" % (name, native.describe_exit(rc)))
        open(os.path.join(d, "m.h"), "w").write("#define H <x.h>\n#include H\nint tail;\n")
        rc, out = native.sh(["timeout", "20", nb.bin("parse_file"), "-S" + os.path.join(d, "sys"), "m.h"], stdin=b"", cwd=d)
        if "from_local_x" in out or "from_sys_x" not in out:
            seen.append("#define H <x.h> / #include H read the header next to the includer instead of the -S one")
        shutil.rmtree(d, ignore_errors=True)
        return {"reproduced": bool(seen), "cmd": "parse_file -S sys top.h / m.h", "observed": "; ".join(seen) or "all witnesses behave"}
    finally:
        nb.close()
