#ifndef FILENAME_H
#define FILENAME_H
#include "dtoolbase.h"
// VU skeleton: the kernels of this VU never look inside a Filename (the real class uses conversion
// operators and rvalue references that CBMC's C++ front end rejects)
class Filename {
public:
  Filename() : _canonical(false) {}
  Filename(const std::string &s) : _filename(s), _canonical(false) {}
  Filename(const char *s) : _filename(s), _canonical(false) {}
  std::string _filename;
  operator const std::string &() const { return _filename; }
  std::string get_fullpath() const { return _filename; }
  void set_text() {}
  bool make_canonical() { _canonical = true; return true; }
  bool _canonical;
  Filename &operator=(const std::string &s) { _filename = s; return *this; }
  bool empty() const { return _filename.empty(); }
  bool operator==(const Filename &o) const { return _filename == o._filename; }
  bool operator<(const Filename &o) const { return _filename < o._filename; }
};
inline std::ostream &operator<<(std::ostream &out, const Filename &n) { return out << n._filename; }
#endif
