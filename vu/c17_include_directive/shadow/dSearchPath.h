#ifndef DSEARCHPATH_H
#define DSEARCHPATH_H
#include "dtoolbase.h"
#include "filename.h"
#include <vector>
// VU skeleton (the real header crashes CBMC's C++ front end): an ordered list of directories
class DSearchPath {
public:
  std::vector<Filename> _directories;
  size_t get_num_directories() const { return _directories.size(); }
  Filename get_directory(size_t n) const { return _directories[n]; }
  void append_directory(const Filename &directory) { _directories.push_back(directory); }
};
#endif
