"""Native replay for VU c07_get_number: the counterexample literal is compared, in an #if of the parse_file built from the
working tree, with the value Python computes for the same spelling; an #error (non-zero exit) reproduces."""
import os, sys, tempfile, shutil
sys.path.insert(0, os.path.join(os.path.dirname(os.path.realpath(__file__)), "..", "..", "lib"))
import native


def value_of(lit):
    s = lit.replace("'", "")
    if s[:2] in ("0x", "0X"):
        return int(s[2:], 16)
    if s[:2] in ("0b", "0B"):
        return int(s[2:], 2)
    if s.startswith("0") and len(s) > 1:
        return int(s, 8)
    return int(s, 10)


def replay(ctx):
    vin = ctx["vin"]
    try:
        n = int(str(vin.get("vin_in_len", "0")).rstrip("ul"))
    except Exception:
        n = 0
    data = b""
    for i in range(n):
        b = vin.get("vin_in[%dl]#bin" % i)
        data += bytes([int(b, 2)]) if b else b"0"
    try:
        lit = data.decode("ascii")
        want = value_of(lit)
    except Exception:
        lit, want = None, None
    nb = native.NativeBuild(targets=("parse_file",))
    try:
        if not nb.build():
            return {"reproduced": False, "error": "native build failed", "log": nb.log[-1500:]}
        d = tempfile.mkdtemp(prefix="verif-replay-", dir="/var/tmp")
        f = os.path.join(d, "replay.h")
        if want is not None and ctx["entry"] == "h_get_number_integer":
            text = "#if %s != %d\n#error C07 literal %s should be %d\n#endif\nint replay_marker;\n" % (lit, want, lit, want)
            open(f, "w").write(text)
        else:
            text = None
            open(f, "wb").write(b"int x = " + data)
        rc, out = native.sh(["timeout", "20", nb.bin("parse_file"), f], stdin=b"")
        shutil.rmtree(d, ignore_errors=True)
        bad = (rc != 0) if text else (rc < 0 or rc >= 124)
        return {"reproduced": bool(bad), "input": text or repr(data), "cmd": "parse_file replay.h", "observed": native.describe_exit(rc), "output": out[-500:]}
    finally:
        nb.close()
