// VU c07_get_number: CPPPreprocessor::get_number (with the real skip_digit_separator) over a symbolic byte sequence:
// the INTEGER token of a decimal, octal, hexadecimal or binary literal carries the value C++ gives the literal.
// Bounded in input length (B mode).
#define private public
#define protected public
#include "vu_common.h"
//@headers src/dtoolbase src/dtoolutil src/cppparser
//@shadow filename.h dSearchPath.h
//@hdrsubst cpp*.h except=cppDeclaration.h "from=(?m)^\s*virtual CPP\w+ \*as_\w+\(\);\s*$" to=
//@hdrsubst cpp*.h "from=\bvirtual\s+" to=
// the recursive member std::vector<ExpansionNode> cannot be modelled by the array-based vstl vector (a class containing
// an array of itself); no kernel of this VU touches macro expansion nodes
//@hdrsubst cppManifest.h "from=std::vector<ExpansionNode> _nested;" "to=ExpansionNode *_nested_vu_unused;"
//@hdrsubst cppManifest.h "from=ExpansionNode\(std::vector<ExpansionNode> nested[^;]*;" to=
// default arguments that are class temporaries crash the front end (declaration of CPPManifest::expand, not a kernel)
//@hdrsubst cpp*.h "from= = (vector_string|Ignores|CPPManifest::Ignores|YYSTYPE)\(\)" to=
// R20: the member std::vector<CPPToken> (CPPToken has no default constructor; the array-based vector needs one) is not
// touched by this kernel and becomes a pointer, so that a TYPED CPPPreprocessor object can be built by the real constructor
//@hdrsubst cppPreprocessor.h "from=std::vector<CPPToken> _saved_tokens;" "to=CPPToken *_saved_tokens_vu_unused;"
//@bison src/cppparser/cppBison.yxx cppBison.h
#include "dtoolbase.h"
#include "cppPreprocessor.h"
#include "cppBison.h"
#include <ctype.h>
#include "vstl_globals.h"

#ifndef VU_IN_MAX
#define VU_IN_MAX 6
#endif
// ---- the character source (callee contract in replace form): a byte sequence, then EOF for ever
static unsigned char vin_in[VU_IN_MAX]; static int vin_in_len; static int g_pos;
int CPPPreprocessor::get() { if (_unget != '\0') { int c = _unget; _unget = '\0'; return c; } if (g_pos < vin_in_len) return vin_in[g_pos++]; return EOF; }
int CPPPreprocessor::peek() { if (_unget != '\0') return _unget; if (g_pos < vin_in_len) return vin_in[g_pos]; return EOF; }
void CPPPreprocessor::unget(int c) { _unget = c; }
static int g_warnings, g_errors;
void CPPPreprocessor::warning(const std::string &message) const { g_warnings++; }
void CPPPreprocessor::warning(const std::string &message, const YYLTYPE &loc) const { g_warnings++; }
void CPPPreprocessor::error(const std::string &message) const { g_errors++; }
void CPPPreprocessor::error(const std::string &message, const YYLTYPE &loc) const { g_errors++; }
CPPFile CPPPreprocessor::get_file() const { static CPPFile f; return f; }
int CPPPreprocessor::get_line_number() const { return 1; }
int CPPPreprocessor::get_col_number() const { return g_pos; }
CPPFile::CPPFile(const Filename &filename, const Filename &filename_as_referenced, Source source) : _source(source), _pragma_once(false) {}

// ---- strtol (libc, assumed to follow ISO C 7.22.1.4): an executable statement of that contract for the bases used here
extern "C" long strtol(const char *s, char **end, int base) {
  long v = 0; int i = 0;
  if (base == 16 && s[0] == '0' && (s[1] == 'x' || s[1] == 'X')) i = 2;
  for (; i <= (int)std::string::CAP; i++) {
    int c = (unsigned char)s[i], d;
    if (c >= '0' && c <= '9') d = c - '0'; else if (c >= 'a' && c <= 'f') d = c - 'a' + 10; else if (c >= 'A' && c <= 'F') d = c - 'A' + 10; else break;
    if (d >= base) break;
    v = v * base + d;
  }
  return v;
}
// pstrtod (C18 units): records the spelling it is handed
static std::string g_pstrtod_arg; static int g_pstrtod_calls;
double pstrtod(const char *nptr, char **endptr) { g_pstrtod_calls++; g_pstrtod_arg = nptr; return nondet_double(); }
// ---- get_literal (callee, replaced by its contract): with no suffix following, the token is passed through unchanged
static int g_lit_token; static long long g_lit_value; static int g_lit_calls; static size_t g_lit_len;
CPPToken CPPPreprocessor::get_literal(int token, YYLTYPE loc, const std::string &str, const YYSTYPE &value) {
  g_lit_calls++; g_lit_token = token; g_lit_value = value.u.integer; g_lit_len = str.size();
  static CPPFile f; static YYSTYPE y;
  return CPPToken(token, 0, 0, f, str, y);
}
CPPToken::CPPToken(int token, int line_number, int col_number, const CPPFile &file, const std::string &str, const YYSTYPE &lval) : _token(token) {}

//@extract src/cppparser/cppPreprocessor.cxx CPPPreprocessor::CPPPreprocessor
//@extract src/cppparser/cppPreprocessor.cxx CPPPreprocessor::skip_digit_separator
//@extract src/cppparser/cppPreprocessor.cxx CPPPreprocessor::get_number
//@extract src/cppparser/cppPreprocessor.cxx hex_val
//@extract src/cppparser/cppPreprocessor.cxx CPPPreprocessor::scan_escape_sequence
//@extract src/cppparser/cppPreprocessor.cxx CPPPreprocessor::scan_quoted
//@extract src/cppparser/cppPreprocessor.cxx CPPPreprocessor::get_quoted_char

static CPPPreprocessor g_pp_obj;
static void make_input() {
  vin_in_len = nondet_int(); __CPROVER_assume(vin_in_len >= 1 && vin_in_len <= VU_IN_MAX);
  for (int i = 0; i < VU_IN_MAX; i++) vin_in[i] = (unsigned char)nondet_char();
  g_pos = 1;       // get_token() has read the first character and passes it as the argument
}
static int digit_of(int c) { return (c >= '0' && c <= '9') ? c - '0' : (c >= 'a' && c <= 'f') ? c - 'a' + 10 : (c >= 'A' && c <= 'F') ? c - 'A' + 10 : 99; }

// ---- the whole input is one integer literal of [lex.icon] (digits of one base, single quotes between digits allowed):
// the token is INTEGER and its value is the value of the literal
void h_get_number_integer() {
  make_input();
  int base = 10, first = 0;
  if (vin_in[0] == '0' && vin_in_len >= 3 && (vin_in[1] == 'x' || vin_in[1] == 'X')) { base = 16; first = 2; }
  else if (vin_in[0] == '0' && vin_in_len >= 3 && (vin_in[1] == 'b' || vin_in[1] == 'B')) { base = 2; first = 2; }
  else if (vin_in[0] == '0') { base = 8; }
  __CPROVER_assume(vin_in[0] >= '0' && vin_in[0] <= '9');
  long long want = 0; bool prev_digit = false;
  for (int i = first; i < VU_IN_MAX; i++) {
    if (i >= vin_in_len) break;
    int c = vin_in[i];
    if (c == '\'') { __CPROVER_assume(prev_digit && i + 1 < vin_in_len && vin_in[i + 1] >= '0' && vin_in[i + 1] <= '9'); prev_digit = false; continue; }
    int d = digit_of(c);
    __CPROVER_assume(d < base);
    want = want * base + d; prev_digit = true;
  }
  g_pp_obj._unget = '\0'; g_errors = 0; g_lit_calls = 0;
  g_pp_obj.get_number(vin_in[0]);
  OBL(g_lit_calls == 1 && g_lit_token == INTEGER, "C07.get_number: a digit sequence of one base is one INTEGER token");
  OBL(g_lit_value == want, "C07.get_number: a decimal, octal, hexadecimal or binary literal has the value C++ assigns to it ([lex.icon])");
  OBL(g_pos == vin_in_len && g_errors == 0, "C07.get_number: exactly the characters of the literal are consumed and no error is reported");
  VU_REACHED();
}
// ---- any byte sequence: no std::string precondition violated, terminates within the input
void h_get_number_any() {
  make_input();
  __CPROVER_assume((vin_in[0] >= '0' && vin_in[0] <= '9') || vin_in[0] == '.');
  g_pp_obj._unget = '\0'; g_lit_calls = 0;
  g_pp_obj.get_number(vin_in[0]);
  OBL(g_lit_calls == 1 && (g_lit_token == INTEGER || g_lit_token == REAL), "C15.get_number: every input that starts with a digit or a period yields one numeric token");
  OBL(g_lit_len <= (size_t)vin_in_len + 1, "C15.get_number: the spelling is no longer than the input");
  VU_REACHED();
}

// ---- a character literal 'c', '\ooo' or '\xHH' ([lex.ccon]): the CHAR_TOK token carries the value of the literal, which
// has type char: a code unit of 0x80 and above is negative where plain char is signed (the platform of this build, x86-64)
void h_get_quoted_char() {
  make_input(); g_pos = 0;          // get_token() has read the opening quote and passes it as the argument
  int c0 = vin_in[0], c1 = vin_in_len > 1 ? vin_in[1] : -1, c2 = vin_in_len > 2 ? vin_in[2] : -1, c3 = vin_in_len > 3 ? vin_in[3] : -1;
  int unit, used;
  if (c0 != '\\') { __CPROVER_assume(c0 != '\'' && c0 != '\n' && c0 != 0); unit = c0; used = 1; }
  else if (c1 == 'x') { __CPROVER_assume(digit_of(c2) < 16 && digit_of(c3) < 16); unit = digit_of(c2) * 16 + digit_of(c3); used = 4; __CPROVER_assume(unit != 0); }
  else { __CPROVER_assume(c1 >= '1' && c1 <= '3' && c2 >= '0' && c2 <= '7' && c3 >= '0' && c3 <= '7'); unit = (c1 - '0') * 64 + (c2 - '0') * 8 + (c3 - '0'); used = 4; }
  __CPROVER_assume(vin_in_len == used + 1 && vin_in[used] == '\'');
  g_pp_obj._unget = '\0'; g_errors = 0; g_warnings = 0; g_lit_calls = 0;
  g_pp_obj.get_quoted_char('\'');
  OBL(g_lit_calls == 1 && g_lit_token == CHAR_TOK, "C07.get_quoted_char: a character literal is one CHAR_TOK token");
  OBL(g_lit_value == (long long)(signed char)unit, "C07.get_quoted_char: a character literal has the value of its code unit as a (signed) char: '\\xff' is -1, 'a' is 97");
  OBL(g_pos == vin_in_len && g_errors == 0, "C07.get_quoted_char: exactly the characters of the literal are consumed and no error is reported");
  VU_REACHED();
}

// ---- a floating literal without exponent: digits with one period (".5", "5.", "1.25"): one REAL token whose value is what
// pstrtod makes of exactly the spelling in the source
void h_get_number_real() {
  make_input();
  int dots = 0, digits = 0;
  for (int i = 0; i < VU_IN_MAX; i++) if (i < vin_in_len) {
    int c = vin_in[i];
    __CPROVER_assume(c == '.' || (c >= '0' && c <= '9'));
    if (c == '.') dots++; else digits++;
  }
  __CPROVER_assume(dots == 1 && digits >= 1);
  g_pp_obj._unget = '\0'; g_errors = 0; g_lit_calls = 0; g_pstrtod_calls = 0;
  g_pp_obj.get_number(vin_in[0]);
  OBL(g_lit_calls == 1 && g_lit_token == REAL, "C18.get_number: digits with a period are one REAL token, also when the literal starts with the period (.5)");
  __CPROVER_assume(!g_pstrtod_arg._trunc);
  bool same = g_pstrtod_calls == 1 && g_pstrtod_arg._n == (size_t)vin_in_len;
  for (int i = 0; i < VU_IN_MAX; i++) if (i < vin_in_len && g_pstrtod_arg._d[i] != (char)vin_in[i]) same = false;
  OBL(same, "C18.get_number: the value of a floating literal is pstrtod of exactly its spelling in the source");
  OBL(g_pos == vin_in_len && g_errors == 0, "C18.get_number: exactly the characters of the literal are consumed and no error is reported");
  VU_REACHED();
}
