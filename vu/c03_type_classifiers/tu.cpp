// VU c03_type_classifiers: TypeManager::is_char_pointer / is_const_char_pointer, one step over the structure of a type.  The
// generators choose the emitted string conversion by these judgements (-string option): a type taken for `const char *`
// that is not one yields a wrapper that does not compile, or one that hands out writable access to constant data.
#define private public
#define protected public
#include "vu_common.h"
//@headers src/dtoolbase src/dtoolutil src/cppparser
//@shadow filename.h dSearchPath.h
//@hdrsubst cpp*.h except=cppDeclaration.h "from=(?m)^\s*virtual CPP\w+ \*as_\w+\(\);\s*$" to=
//@hdrsubst cpp*.h "from=\bvirtual\s+" to=
// the recursive member std::vector<ExpansionNode> cannot be modelled by the array-based vstl vector (a class containing
// an array of itself); no kernel of this VU touches macro expansion nodes
//@hdrsubst cppManifest.h "from=std::vector<ExpansionNode> _nested;" "to=ExpansionNode *_nested_vu_unused;"
//@hdrsubst cppManifest.h "from=ExpansionNode\(std::vector<ExpansionNode> nested[^;]*;" to=
// default arguments that are class temporaries crash the front end (declaration of CPPManifest::expand, not a kernel)
//@hdrsubst cpp*.h "from= = (vector_string|Ignores|CPPManifest::Ignores|YYSTYPE)\(\)" to=
//@bison src/cppparser/cppBison.yxx cppBison.h
#include "dtoolbase.h"
#include "cppType.h"
#include "cppPointerType.h"
#include "cppReferenceType.h"
#include "cppArrayType.h"
#include "cppConstType.h"
#include "cppFunctionType.h"
#include "cppTypedefType.h"
#include "cppParameterList.h"
#include "cppInstance.h"
#include <set>
#include "cppBison.h"
#include <ctype.h>
#include "vstl_globals.h"


// skeleton of the class (all members under contract are static; conformance.cpp checks the signatures)
class TypeManager {
public:
  static bool is_const(CPPType *type);
  static bool is_char(CPPType *type);
  static bool is_char_pointer(CPPType *type);
  static bool is_const_char_pointer(CPPType *type);
  static bool is_char_pointer__body(CPPType *type);
  static bool is_const_char_pointer__body(CPPType *type);
};
// ---- ghost description of the type under judgement: its kind and what the judgements say about its part
static CPPType *g_self, *g_child;
static int vin_kind; static bool vin_child_is_const, vin_child_is_char, vin_child_is_char_pointer, vin_child_is_const_char_pointer;
static int vu_subtype(CPPType *t) { return vin_kind; }
// callees (contracts in replace form): the judgements on the part (pointee, wrapped or aliased type)
bool TypeManager::is_const(CPPType *t) { __CPROVER_assert(t == g_child, "C03.model: only the part is judged"); return vin_child_is_const; }
bool TypeManager::is_char(CPPType *t) { __CPROVER_assert(t == g_child, "C03.model: only the part is judged"); return vin_child_is_char; }
bool TypeManager::is_char_pointer(CPPType *t) { __CPROVER_assert(t == g_child, "C03.model: only the part is judged"); return vin_child_is_char_pointer; }
bool TypeManager::is_const_char_pointer(CPPType *t) { __CPROVER_assert(t == g_child, "C03.model: only the part is judged"); return vin_child_is_const_char_pointer; }
static CPPPointerType *vu_as_pointer_type(CPPType *t) { CPPPointerType *p = VU_NEW(CPPPointerType); p->_pointing_at = g_child; return p; }
static CPPConstType *vu_as_const_type(CPPType *t) { CPPConstType *p = VU_NEW(CPPConstType); p->_wrapped_around = g_child; return p; }
static CPPTypedefType *vu_as_typedef_type(CPPType *t) { CPPTypedefType *p = VU_NEW(CPPTypedefType); p->_type = g_child; return p; }
//@extract src/interrogate/typeManager.cxx TypeManager::is_char_pointer rename=__body "subst1=@type->get_subtype\(\)@vu_subtype(type)@" "subst2=@type->as_(\w+)_type\(\)@vu_as_\1_type(type)@"
//@extract src/interrogate/typeManager.cxx TypeManager::is_const_char_pointer rename=__body "subst1=@type->get_subtype\(\)@vu_subtype(type)@" "subst2=@type->as_(\w+)_type\(\)@vu_as_\1_type(type)@"

static void make_type() {
  g_self = (CPPType *)vu_alloc(8); g_child = (CPPType *)vu_alloc(8);
  vin_kind = nondet_int(); __CPROVER_assume(vin_kind >= CPPDeclaration::ST_simple && vin_kind <= CPPDeclaration::ST_closure);
  vin_child_is_const = nondet_bool(); vin_child_is_char = nondet_bool(); vin_child_is_char_pointer = nondet_bool(); vin_child_is_const_char_pointer = nondet_bool();
}
// [basic.type.qualifier], [dcl.typedef]: a top-level cv-qualifier or an alias does not change what a pointer type points
// to; [dcl.ptr]: `T *` is a pointer to char iff T is (cv) char, and a pointer to const char iff T is const-qualified char
void h_is_char_pointer() {
  make_type();
  bool r = TypeManager::is_char_pointer__body(g_self);
  bool want = (vin_kind == CPPDeclaration::ST_const || vin_kind == CPPDeclaration::ST_typedef) ? vin_child_is_char_pointer
            : (vin_kind == CPPDeclaration::ST_pointer) ? vin_child_is_char : false;
  OBL(r == want, "C03.is_char_pointer: a type is a pointer to char iff, below top-level const and aliases, it is a pointer whose pointee is char");
  VU_REACHED();
}
void h_is_const_char_pointer() {
  make_type();
  bool r = TypeManager::is_const_char_pointer__body(g_self);
  bool want = (vin_kind == CPPDeclaration::ST_const || vin_kind == CPPDeclaration::ST_typedef) ? vin_child_is_const_char_pointer
            : (vin_kind == CPPDeclaration::ST_pointer) ? (vin_child_is_const && vin_child_is_char) : false;
  OBL(r == want, "C03.is_const_char_pointer: a type is a pointer to const char iff, below top-level const and aliases, it is a pointer whose pointee is const-qualified char (char *const is not)");
  VU_REACHED();
}
