// Native conformance check of the TypeManager skeleton used by VU c03_type_classifiers.
#include "typeManager.h"
#include <type_traits>
static_assert(std::is_same<decltype(&TypeManager::is_const), bool (*)(CPPType *)>::value, "is_const");
static_assert(std::is_same<decltype(&TypeManager::is_char), bool (*)(CPPType *)>::value, "is_char");
static_assert(std::is_same<decltype(&TypeManager::is_char_pointer), bool (*)(CPPType *)>::value, "is_char_pointer");
static_assert(std::is_same<decltype(&TypeManager::is_const_char_pointer), bool (*)(CPPType *)>::value, "is_const_char_pointer");
int main() { return 0; }
