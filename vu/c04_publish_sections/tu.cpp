// VU c04_publish_sections: the grammar actions of __begin_publish / __end_publish and of the access labels (blocks of
// cppBison.yxx, R5).  What lies between __begin_publish and __end_publish is published; behind __end_publish the access
// that was current before __begin_publish is current again - a private section stays private.
#include "vu_common.h"
#include "vstl_globals.h"
enum CPPVisibility { V_published, V_public, V_protected, V_private, V_unknown };
class CPPScope { public: CPPVisibility _vis; CPPVisibility get_current_vis() const { return _vis; } void set_current_vis(CPPVisibility v) { _vis = v; } };
struct YYLTYPE { int first_line; };
static CPPScope *current_scope; static int publish_nest_level; static CPPVisibility publish_previous; static YYLTYPE publish_loc;
// yyerror (file-static in the grammar file: reports through the lexer) is replaced by its contract: the error is counted
static int g_errors; static void yyerror(const char *msg, const YYLTYPE &loc) { g_errors++; }
static YYLTYPE vu_loc;
//@block src/cppparser/cppBison.yxx helpers=0 "start=    yyerror(\"Unclosed __begin_publish\", publish_loc);" start_ordinal=1 "end=  current_scope->set_current_vis(V_published);" "head=static void vu_begin_publish() { if (publish_nest_level != 0)" "tail=" "subst1=@\x401@vu_loc@"
//@block src/cppparser/cppBison.yxx helpers=0 "start=  if (publish_nest_level != 1) {" "end=  publish_nest_level = 0;" start_ordinal=0 "head=static void vu_end_publish()" "subst1=@\x401@vu_loc@"
//@block src/cppparser/cppBison.yxx helpers=0 "start=  if (publish_nest_level > 0) {" "end=    current_scope->set_current_vis(V_public);" start_ordinal=0 "head=static void vu_public_label()" "tail=}"

void h_publish_section_restores_access() {
  static CPPScope scope; current_scope = &scope;
  int vin_vis = nondet_int(); __CPROVER_assume(vin_vis >= V_published && vin_vis <= V_private);
  scope._vis = (CPPVisibility)vin_vis; publish_nest_level = 0; g_errors = 0;
  vu_begin_publish();
  OBL(scope._vis == V_published && publish_nest_level == 1 && g_errors == 0, "C04.publish: between __begin_publish and __end_publish declarations are published");
  bool vin_public_label_inside = nondet_bool();
  if (vin_public_label_inside) { vu_public_label(); OBL(scope._vis == V_published, "C04.publish: `public:` inside a publish section keeps publishing"); }
  vu_end_publish();
  OBL(scope._vis == (CPPVisibility)vin_vis && publish_nest_level == 0 && g_errors == 0, "C04.publish: __end_publish restores the access that was current before __begin_publish (a section opened under private: is private again behind it)");
  VU_REACHED();
}
void h_unmatched_end_publish_changes_nothing() {
  static CPPScope scope; current_scope = &scope;
  int vin_vis = nondet_int(); __CPROVER_assume(vin_vis >= V_published && vin_vis <= V_private);
  scope._vis = (CPPVisibility)vin_vis; publish_nest_level = 0; g_errors = 0; publish_previous = (CPPVisibility)nondet_int();
  vu_end_publish();
  OBL(scope._vis == (CPPVisibility)vin_vis && g_errors == 1, "C04.publish: an __end_publish without __begin_publish is an error and leaves the access as it is");
  VU_REACHED();
}
