// VU c11_remap_records: remap_indices of the six record classes; IndexRemapper.
// Whole-object postcondition generated from the class headers (lib/recordgen.py): every member of an
// index typedef equals F(old), element-wise for lists, every other member is unchanged.  Lists are
// concrete vectors of capacity VSTL_VEC_CAP: B mode in list length.
#define private public
#define protected public
#include "vu_common.h"
//@headers src/dtoolbase src/interrogatedb
//@shadow config_interrogatedb.h indent.h
//@truncate interrogateDatabase.I from=src/interrogatedb/interrogateDatabase.I anchor="lookup_type_by_name(const"
//@generate gen.py
#include "interrogateDatabase.h"
#include "indexRemapper.h"
#include "records_gen.h"

//@extract src/interrogatedb/interrogateType.cxx InterrogateType::InterrogateType ordinal=0
//@extract src/interrogatedb/interrogateFunction.cxx InterrogateFunction::InterrogateFunction ordinal=0
//@extract src/interrogatedb/interrogateType.cxx InterrogateType::remap_indices
//@extract src/interrogatedb/interrogateFunction.cxx InterrogateFunction::remap_indices
//@extract src/interrogatedb/interrogateFunctionWrapper.cxx InterrogateFunctionWrapper::remap_indices
//@extract src/interrogatedb/interrogateElement.cxx InterrogateElement::remap_indices
//@extract src/interrogatedb/interrogateManifest.cxx InterrogateManifest::remap_indices
//@extract src/interrogatedb/interrogateMakeSeq.cxx InterrogateMakeSeq::remap_indices

std::string InterrogateComponent::_empty_string;

// callee contract (replace form): map_from is a function of its argument (proved for the real
// IndexRemapper in h_index_remapper below, over the std::map model)
IndexRemapper::IndexRemapper() {}
IndexRemapper::~IndexRemapper() {}
int IndexRemapper::map_from(int from) const { return __CPROVER_uninterpreted_remap(from); }

#define REMAP_ENTRY(H, CLS) \
static CLS g_obj_##CLS, g_snap_##CLS; \
void H() { IndexRemapper remap; \
  __CPROVER_assume(__CPROVER_uninterpreted_remap(0) == 0);   /* index 0 means "none" and is never a key of a remapper */ \
  havoc_##CLS(g_obj_##CLS); copy_##CLS(g_snap_##CLS, g_obj_##CLS); \
  g_obj_##CLS.remap_indices(remap); \
  check_remap_##CLS(g_obj_##CLS, g_snap_##CLS); \
  VU_REACHED(); }

REMAP_ENTRY(h_remap_type, InterrogateType)
REMAP_ENTRY(h_remap_function, InterrogateFunction)
REMAP_ENTRY(h_remap_wrapper, InterrogateFunctionWrapper)
// record invariant of elements (as the builder and the reader establish it): a function slot is 0 ("none") unless its flag
// says it is in use; the length function belongs to sequence and mapping properties.  With it a flag-guarded implementation
// of remap_indices is as acceptable as the unconditional one.
#define ELEMENT_INV(e) \
  ((((e)._flags & InterrogateElement::F_has_getter) || (e)._getter == 0) && (((e)._flags & InterrogateElement::F_has_setter) || (e)._setter == 0) && \
   (((e)._flags & InterrogateElement::F_has_has_function) || (e)._has_function == 0) && (((e)._flags & InterrogateElement::F_has_clear_function) || (e)._clear_function == 0) && \
   (((e)._flags & InterrogateElement::F_has_del_function) || (e)._del_function == 0) && (((e)._flags & InterrogateElement::F_has_insert_function) || (e)._insert_function == 0) && \
   (((e)._flags & InterrogateElement::F_has_getkey_function) || (e)._getkey_function == 0) && \
   (((e)._flags & (InterrogateElement::F_sequence | InterrogateElement::F_mapping)) || (e)._length_function == 0))
static InterrogateElement g_obj_InterrogateElement, g_snap_InterrogateElement;
void h_remap_element() { IndexRemapper remap;
  __CPROVER_assume(__CPROVER_uninterpreted_remap(0) == 0);
  havoc_InterrogateElement(g_obj_InterrogateElement);
  __CPROVER_assume(ELEMENT_INV(g_obj_InterrogateElement));
  copy_InterrogateElement(g_snap_InterrogateElement, g_obj_InterrogateElement);
  g_obj_InterrogateElement.remap_indices(remap);
  check_remap_InterrogateElement(g_obj_InterrogateElement, g_snap_InterrogateElement);
  VU_REACHED(); }
REMAP_ENTRY(h_remap_manifest, InterrogateManifest)
REMAP_ENTRY(h_remap_make_seq, InterrogateMakeSeq)
