// VU c10_virtual_override: CPPFunctionType::match_virtual_override, which decides whether a member function of a derived
// class overrides a (pure) virtual function of a base and hence whether the derived class is still abstract.
// Loop-free over full-domain flag words: P mode.
#define private public
#define protected public
#include "vu_common.h"
//@headers src/dtoolbase src/dtoolutil src/cppparser
//@shadow filename.h
//@hdrsubst cpp*.h except=cppDeclaration.h "from=(?m)^\s*virtual CPP\w+ \*as_\w+\(\);\s*$" to=
//@hdrsubst cpp*.h "from=\bvirtual\s+" to=
//@hdrinsert cppParameterList.h after="bool is_equivalent(const CPPParameterList &other) const;" text="bool is_equivalent__body(const CPPParameterList &other) const;"
//@bison src/cppparser/cppBison.yxx cppBison.h
#include "dtoolbase.h"
#include "cppFunctionType.h"
#include "cppParameterList.h"
#include "cppBison.h"
#include "vstl_globals.h"

// ---- callees (replace form): type and parameter-list comparison answer arbitrarily but recorded
static bool g_ret_equiv, g_ret_conv, g_params_equiv;
// type equivalence: the return types answer g_ret_equiv; the i-th parameter types answer vin_param_equiv[i]
static CPPType *g_ptype_a[2], *g_ptype_b[2]; static bool vin_param_equiv[2];
bool CPPType::is_equivalent(const CPPType &other) const { for (int i = 0; i < 2; i++) if (this == g_ptype_a[i] && &other == g_ptype_b[i]) return vin_param_equiv[i]; return g_ret_equiv; }
bool CPPType::is_convertible_to(const CPPType *other) const { return g_ret_conv; }

//@extract src/cppparser/cppFunctionType.cxx CPPFunctionType::match_virtual_override
//@extract src/cppparser/cppParameterList.cxx CPPParameterList::is_equivalent rename=__body
static bool vin_is_function_decl;
static CPPFunctionType *vu_as_function_type(CPPType *t) { return vin_is_function_decl ? (CPPFunctionType *)t : (CPPFunctionType *)0; }
#include "cppInstance.h"
#include "cppExpression.h"
//@extract src/cppparser/cppInstance.cxx CPPInstance::set_initializer "subst1=@_type->as_function_type\(\)@vu_as_function_type(_type)@"
bool CPPParameterList::is_equivalent(const CPPParameterList &other) const { return g_params_equiv; }

void h_match_virtual_override() {
  CPPFunctionType *f = (CPPFunctionType *)vu_alloc(sizeof(CPPFunctionType)), *g = (CPPFunctionType *)vu_alloc(sizeof(CPPFunctionType));
  f->_return_type = (CPPType *)vu_alloc(8); g->_return_type = (CPPType *)vu_alloc(8);
  f->_parameters = (CPPParameterList *)vu_alloc(8); g->_parameters = (CPPParameterList *)vu_alloc(8);
  f->_flags = nondet_int(); g->_flags = nondet_int();
  g_ret_equiv = nondet_bool(); g_ret_conv = nondet_bool(); g_params_equiv = nondet_bool();
  bool r = f->match_virtual_override(*g);
  // [class.virtual]/2: a member function overrides a base-class virtual function of the same name (checked by the caller) if
  // parameter-type-list, cv-qualification and ref-qualifier are the same; the return type equal or covariant.  The
  // virt-specifiers, the exception specification and the way the return type is written are not part of that.  The
  // remaining flag bits are functions of name and parameters (operator kinds, constructor kinds) and agree when those do.
  int relevant = CPPFunctionType::F_const_method | CPPFunctionType::F_volatile_method | CPPFunctionType::F_lvalue_method | CPPFunctionType::F_rvalue_method;
  int irrelevant = CPPFunctionType::F_override | CPPFunctionType::F_final | CPPFunctionType::F_noexcept | CPPFunctionType::F_trailing_return_type;
  __CPROVER_assume(((f->_flags ^ g->_flags) & ~(relevant | irrelevant)) == 0);
  bool same_kind = ((f->_flags ^ g->_flags) & relevant) == 0;
  OBL(r == ((g_ret_equiv || g_ret_conv) && same_kind && g_params_equiv), "C10.match_virtual_override: a function overrides a base function exactly if the return type is equal or convertible, the parameter lists are equivalent and cv- and ref-qualifiers agree; override, final, noexcept and a trailing return type on either side play no part");
  VU_REACHED();
}

// ---- parameter lists: equivalent iff both are variadic or neither is, they have the same number of parameters and the
// parameter types are pairwise equivalent ([dcl.fct]: the parameter-type-list includes the ellipsis)
#include "cppInstance.h"
void h_parameter_lists_equivalent() {
  CPPParameterList *a = VU_NEW(CPPParameterList), *b = VU_NEW(CPPParameterList);
  size_t na = nondet_size_t(), nb = nondet_size_t(); __CPROVER_assume(na <= 2 && nb <= 2);
  a->_parameters._n = na; a->_parameters._trunc = false; b->_parameters._n = nb; b->_parameters._trunc = false;
  a->_includes_ellipsis = nondet_bool(); b->_includes_ellipsis = nondet_bool();
  for (int i = 0; i < 2; i++) {
    g_ptype_a[i] = (CPPType *)vu_alloc(8); g_ptype_b[i] = (CPPType *)vu_alloc(8); vin_param_equiv[i] = nondet_bool();
    CPPInstance *pa = VU_NEW(CPPInstance), *pb = VU_NEW(CPPInstance); pa->_type = g_ptype_a[i]; pb->_type = g_ptype_b[i];
    a->_parameters._d[i] = pa; b->_parameters._d[i] = pb;
  }
  bool r = a->is_equivalent__body(*b);
  bool want = a->_includes_ellipsis == b->_includes_ellipsis && na == nb;
  for (int i = 0; i < 2; i++) if ((size_t)i < na && (size_t)i < nb && !vin_param_equiv[i]) want = false;
  OBL(r == want, "C10.parameter_lists: two parameter lists are equivalent exactly if both or neither end in an ellipsis, they have the same length and the parameter types are pairwise equivalent (f(const char *, ...) does not override f(const char *))");
  VU_REACHED();
}

// ---- `= 0`, `= default`, `= delete` behind a function declaration ([class.abstract], [dcl.fct.def]): the pure-specifier
// makes the function pure virtual whether or not the keyword virtual is repeated on an overriding declaration
void h_set_initializer() {
  CPPInstance *inst = VU_NEW(CPPInstance);
  inst->_type = (CPPType *)vu_alloc(8); vin_is_function_decl = nondet_bool();
  int vin_sc = nondet_int(); inst->_storage_class = vin_sc; inst->_initializer = (CPPExpression *)vu_alloc(8);
  CPPExpression *init = nondet_bool() ? (CPPExpression *)0 : VU_NEW(CPPExpression);
  int vin_kind = nondet_int(); if (init) init->_type = (CPPExpression::Type)vin_kind;
  inst->set_initializer(init);
  int special = CPPInstance::SC_pure_virtual | CPPInstance::SC_defaulted | CPPInstance::SC_deleted;
  if (vin_is_function_decl) {
    int want = 0;
    if (init && vin_kind == CPPExpression::T_integer) want = CPPInstance::SC_pure_virtual;
    else if (init && vin_kind == CPPExpression::T_default) want = CPPInstance::SC_defaulted;
    else if (init && vin_kind == CPPExpression::T_delete) want = CPPInstance::SC_deleted;
    OBL((inst->_storage_class & special) == want && (inst->_storage_class & ~special) == (vin_sc & ~special) && inst->_initializer == 0, "C10.set_initializer: `= 0` makes a function declaration pure virtual (with or without the keyword virtual: void f() override = 0;), `= default` / `= delete` mark it so; nothing else changes");
  } else OBL(inst->_initializer == init && inst->_storage_class == vin_sc, "C10.set_initializer: a variable keeps its initializer");
  VU_REACHED();
}
