// VU c10_virtual_override: CPPFunctionType::match_virtual_override, which decides whether a member function of a derived
// class overrides a (pure) virtual function of a base and hence whether the derived class is still abstract.
// Loop-free over full-domain flag words: P mode.
#define private public
#define protected public
#include "vu_common.h"
//@headers src/dtoolbase src/dtoolutil src/cppparser
//@shadow filename.h
//@hdrsubst cpp*.h except=cppDeclaration.h "from=(?m)^\s*virtual CPP\w+ \*as_\w+\(\);\s*$" to=
//@hdrsubst cpp*.h "from=\bvirtual\s+" to=
//@bison src/cppparser/cppBison.yxx cppBison.h
#include "dtoolbase.h"
#include "cppFunctionType.h"
#include "cppParameterList.h"
#include "cppBison.h"
#include "vstl_globals.h"

// ---- callees (replace form): type and parameter-list comparison answer arbitrarily but recorded
static bool g_ret_equiv, g_ret_conv, g_params_equiv;
bool CPPType::is_equivalent(const CPPType &other) const { return g_ret_equiv; }
bool CPPType::is_convertible_to(const CPPType *other) const { return g_ret_conv; }
bool CPPParameterList::is_equivalent(const CPPParameterList &other) const { return g_params_equiv; }

//@extract src/cppparser/cppFunctionType.cxx CPPFunctionType::match_virtual_override

void h_match_virtual_override() {
  CPPFunctionType *f = (CPPFunctionType *)vu_alloc(sizeof(CPPFunctionType)), *g = (CPPFunctionType *)vu_alloc(sizeof(CPPFunctionType));
  f->_return_type = (CPPType *)vu_alloc(8); g->_return_type = (CPPType *)vu_alloc(8);
  f->_parameters = (CPPParameterList *)vu_alloc(8); g->_parameters = (CPPParameterList *)vu_alloc(8);
  f->_flags = nondet_int(); g->_flags = nondet_int();
  g_ret_equiv = nondet_bool(); g_ret_conv = nondet_bool(); g_params_equiv = nondet_bool();
  bool r = f->match_virtual_override(*g);
  // [class.virtual]: same name (checked by the caller), parameter-type-list, cv-qualification and ref-qualifier; the
  // return type equal or covariant.  The virt-specifiers override and final are not part of that.
  int virt = CPPFunctionType::F_override | CPPFunctionType::F_final;
  bool same_kind = ((f->_flags ^ g->_flags) & ~virt) == 0;
  OBL(r == ((g_ret_equiv || g_ret_conv) && same_kind && g_params_equiv), "C10.match_virtual_override: a function overrides a base function exactly if the return type is equal or convertible, the parameter lists are equivalent and the function kinds (const, ref-qualifiers, ...) agree; override and final on either side play no part");
  VU_REACHED();
}
