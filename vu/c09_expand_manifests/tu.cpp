// VU c09_expand_manifests: CPPPreprocessor::expand_manifests (one level; the rescan of a macro's replacement text is the
// recursive callee, replaced by its contract) over symbolic expression text.  Bounded in text length (B mode).
#define private public
#define protected public
#include "vu_common.h"
//@headers src/dtoolbase src/dtoolutil src/cppparser
//@shadow filename.h dSearchPath.h
//@hdrsubst cpp*.h except=cppDeclaration.h "from=(?m)^\s*virtual CPP\w+ \*as_\w+\(\);\s*$" to=
//@hdrsubst cpp*.h "from=\bvirtual\s+" to=
// the recursive member std::vector<ExpansionNode> cannot be modelled by the array-based vstl vector (a class containing
// an array of itself); no kernel of this VU touches macro expansion nodes
//@hdrsubst cppManifest.h "from=std::vector<ExpansionNode> _nested;" "to=ExpansionNode *_nested_vu_unused;"
//@hdrsubst cppManifest.h "from=ExpansionNode\(std::vector<ExpansionNode> nested[^;]*;" to=
// default arguments that are class temporaries crash the front end (declaration of CPPManifest::expand, not a kernel)
//@hdrsubst cpp*.h "from= = (vector_string|Ignores|CPPManifest::Ignores|YYSTYPE)\(\)" to=
// R20: the member std::vector<CPPToken> (CPPToken has no default constructor; the array-based vector needs one) is not
// touched by this kernel and becomes a pointer, so that a TYPED CPPPreprocessor object can be built by the real constructor
//@hdrsubst cppPreprocessor.h "from=std::vector<CPPToken> _saved_tokens;" "to=CPPToken *_saved_tokens_vu_unused;"
//@hdrinsert cppPreprocessor.h after="void expand_defined_function(std::string &expr, size_t q, size_t &p) const;" text="void expand_manifests__body(std::string &expr, bool expand_undefined, const CPPManifest::Ignores &ignores) const;"
//@bison src/cppparser/cppBison.yxx cppBison.h
#include "dtoolbase.h"
#include "cppPreprocessor.h"
#include "cppBison.h"
#include <ctype.h>
#include "vstl_globals.h"


// ---- callees (replace form)
static int g_warnings;
void CPPPreprocessor::warning(const std::string &message) const { g_warnings++; }
CPPFile CPPPreprocessor::get_file() const { static CPPFile f; return f; }
int CPPPreprocessor::get_line_number() const { return 7; }
CPPFile::CPPFile(const Filename &filename, const Filename &filename_as_referenced, Source source) : _source(source), _pragma_once(false) {}
// defined X / __has_include(X): verified in c15_scanners / not a kernel here; contract: the operator and its operand
// (which ends somewhere at or behind p) are replaced by one digit and p is left just behind that digit
static int g_defined_calls, g_has_include_calls;
static void replace_by_digit(std::string &expr, size_t q, size_t &p) {
  size_t e = nondet_size_t(); __CPROVER_assume(e >= p && e <= expr.size());
  expr = expr.substr(0, q) + (nondet_bool() ? "1" : "0") + expr.substr(e); p = q + 1;
}
void CPPPreprocessor::expand_defined_function(std::string &expr, size_t q, size_t &p) const { g_defined_calls++; replace_by_digit(expr, q, p); }
void CPPPreprocessor::expand_has_include_function(std::string &expr, size_t q, size_t &p) const { g_has_include_calls++; replace_by_digit(expr, q, p); }
// CPPManifest::expand / extract_args (c15_manifest): an arbitrary replacement text; the arguments it was given are recorded
static std::string g_expansion; static int g_expand_calls; static bool g_expand_flag; static bool g_expand_ignores_self;
static const CPPManifest *g_manifest;
std::string CPPManifest::expand(const vector_string &args, bool expand_undefined, const Ignores &ignores) const {
  g_expand_calls++; g_expand_flag = expand_undefined; g_expand_ignores_self = ignores.count(this) != 0; return g_expansion;
}
void CPPManifest::extract_args(vector_string &args, const std::string &expr, size_t &p) const {
  size_t e = nondet_size_t(); __CPROVER_assume(e > p && e <= expr.size()); p = e;
}
// the rescan of the replacement text (recursive call): records its arguments; the text it is given is left as it is
static int g_rescan_calls; static bool g_rescan_flag; static bool g_rescan_ignores_self;
void CPPPreprocessor::expand_manifests(std::string &expr, bool expand_undefined, const CPPManifest::Ignores &ignores) const {
  g_rescan_calls++; g_rescan_flag = expand_undefined; g_rescan_ignores_self = ignores.count(g_manifest) != 0;
}
std::string format_string(int v) { std::string s; s += (char)('0' + v % 10); return s; }

//@extract src/cppparser/cppPreprocessor.cxx CPPPreprocessor::CPPPreprocessor
//@extract src/cppparser/cppPreprocessor.cxx CPPPreprocessor::expand_manifests rename=__body r15

static CPPPreprocessor g_pp_obj;
static std::string make_text(size_t max) {
  std::string t; t._trunc = false; t._n = nondet_size_t(); __CPROVER_assume(t._n <= max);
  for (size_t i = 0; i < std::string::CAP; i++) { char c = nondet_char(); t._d[i] = (i < t._n) ? c : (char)0; if (i < t._n) __CPROVER_assume(c != 0); }
  t._d[std::string::CAP] = 0;
  return t;
}
static bool is_identc(int c) { return (c >= '0' && c <= '9') || (c >= 'a' && c <= 'z') || (c >= 'A' && c <= 'Z') || c == '_'; }
static bool is_digitc(int c) { return c >= '0' && c <= '9'; }
static CPPManifest *g_manifest_obj;
// at most one macro is defined; its name is arbitrary
static void make_manifests(bool defined, const std::string &name, bool has_parameters) {
  g_pp_obj._manifests._n = 0;
  g_manifest_obj = (CPPManifest *)vu_alloc(sizeof(CPPManifest)); g_manifest = g_manifest_obj;
  g_manifest_obj->_has_parameters = has_parameters;
  if (defined) { g_pp_obj._manifests._d[0].first = name; g_pp_obj._manifests._d[0].second = g_manifest_obj; g_pp_obj._manifests._n = 1; }
  g_expand_calls = g_rescan_calls = g_defined_calls = g_has_include_calls = 0;
}

// ---- a number is one preprocessing token ([lex.ppnumber]): its prefix, digits, suffix and digit separators are never
// taken for identifiers, whatever macros are defined and whether or not undefined identifiers count as 0
void h_expand_number() {
  std::string vin_expr = make_text(std::string::CAP);
  __CPROVER_assume(vin_expr._n >= 1 && is_digitc(vin_expr._d[0]));
  for (size_t i = 1; i < std::string::CAP; i++) if (i < vin_expr._n) {
    char c = vin_expr._d[i];
    __CPROVER_assume(is_identc(c) || (c == '\'' && is_identc(vin_expr._d[i - 1]) && i + 1 < vin_expr._n && is_identc(vin_expr._d[i + 1])));
  }
  std::string vin_name = make_text(3); bool vin_defined = nondet_bool();
  make_manifests(vin_defined, vin_name, nondet_bool());
  g_expansion = make_text(2);
  std::string before = vin_expr;
  bool vin_undef = nondet_bool();
  CPPManifest::Ignores ignores;
  g_pp_obj.expand_manifests__body(vin_expr, vin_undef, ignores);
  __CPROVER_assume(!vin_expr._trunc);
  OBL(vin_expr == before, "C09.expand_manifests: a numeric literal (any base prefix, suffix, digit separators) in a controlling expression is left as it is");
  OBL(g_expand_calls == 0 && g_warnings == 0, "C09.expand_manifests: no part of a number is expanded as a macro and no diagnostic is given for it");
  VU_REACHED();
}

// ---- an identifier that is not a macro: 0 in a controlling expression (expand_undefined), itself elsewhere
void h_expand_undefined_identifier() {
  std::string vin_id = make_text(3);
  __CPROVER_assume(vin_id._n >= 1 && !is_digitc(vin_id._d[0]));
  for (size_t i = 0; i < 3; i++) if (i < vin_id._n) __CPROVER_assume(is_identc(vin_id._d[i]));
  __CPROVER_assume(!(vin_id == "L"));      // L"..." is a literal prefix (<= 3 bytes excludes true, false, defined and the other special names)
  bool vin_lead = nondet_bool(), vin_trail = nondet_bool(), vin_undef = nondet_bool();
  std::string lead, trail; if (vin_lead) lead = "("; if (vin_trail) trail = ")";
  std::string vin_expr = lead + vin_id + trail;
  std::string want = lead; if (vin_undef) want += "0"; else want += vin_id; want += trail;
  std::string other = make_text(3); __CPROVER_assume(!(other == vin_id));
  make_manifests(nondet_bool(), other, nondet_bool());
  CPPManifest::Ignores ignores;
  g_pp_obj.expand_manifests__body(vin_expr, vin_undef, ignores);
  __CPROVER_assume(!vin_expr._trunc && !want._trunc);
  OBL(vin_expr == want, "C09.expand_manifests: an identifier that is not a macro counts as 0 in a controlling expression and is kept elsewhere");
  VU_REACHED();
}

// ---- an object-like macro (or a function-like one followed by its arguments): replaced by its expansion, and the
// expansion is rescanned under the caller's rules, with the macro itself excluded
void h_expand_macro() {
  std::string vin_name = make_text(2);
  __CPROVER_assume(vin_name._n >= 1 && !is_digitc(vin_name._d[0]));
  for (size_t i = 0; i < 2; i++) if (i < vin_name._n) __CPROVER_assume(is_identc(vin_name._d[i]));
  __CPROVER_assume(!(vin_name == "L"));
  bool vin_fn = nondet_bool(), vin_undef = nondet_bool();
  make_manifests(true, vin_name, vin_fn);
  g_expansion = make_text(3);
  std::string vin_expr = vin_name; if (vin_fn) vin_expr += "()";
  std::string want = g_expansion;
  CPPManifest::Ignores ignores;
  g_pp_obj.expand_manifests__body(vin_expr, vin_undef, ignores);
  __CPROVER_assume(!vin_expr._trunc && !want._trunc);
  OBL(g_expand_calls == 1 && g_expand_flag == vin_undef && g_expand_ignores_self, "C09.expand_manifests: the macro is expanded once, under the caller's treatment of undefined identifiers, and excluded from its own expansion");
  OBL(g_rescan_calls == 1 && g_rescan_flag == vin_undef && g_rescan_ignores_self, "C09.expand_manifests: the replacement text is rescanned under the caller's treatment of undefined identifiers (an undefined identifier that a macro expands to counts as 0 in #if), with the macro excluded");
  VU_REACHED();
}

// ---- any text: terminates within the text, violates no std::string precondition
void h_expand_any_text() {
  std::string vin_expr = make_text(std::string::CAP);
  std::string vin_name = make_text(2);
  make_manifests(nondet_bool(), vin_name, nondet_bool());
  g_expansion = make_text(2);
  CPPManifest::Ignores ignores;
  g_pp_obj.expand_manifests__body(vin_expr, nondet_bool(), ignores);
  VU_REACHED();
}
