"""Native replay for VU c09_expand_manifests: the counterexample text becomes the controlling expression of an #if whose
condition a conforming preprocessor finds true; the #else group holds an #error.  parse_file (built from the working tree)
exiting non-zero reproduces."""
import os, re, sys, tempfile, shutil
sys.path.insert(0, os.path.join(os.path.dirname(os.path.realpath(__file__)), "..", "..", "lib"))
import native


def text_of(vin, name):
    try:
        n = int(str(vin.get(name + "._n", "0")).rstrip("ul"))
    except Exception:
        n = 0
    out = b""
    for i in range(n):
        b = vin.get("%s._d[%dl]#bin" % (name, i))
        out += bytes([int(b, 2)]) if b else b"0"
    return out.decode("latin-1")


def number_value(lit):
    s = lit.replace("'", "")
    m = re.match(r"^(0[xX][0-9a-fA-F]+|0[bB][01]+|0[0-7]*|[1-9][0-9]*)([uUlL]*)$", s)
    if not m:
        return None
    d = m.group(1)
    if d[:2] in ("0x", "0X"):
        return int(d[2:], 16)
    if d[:2] in ("0b", "0B"):
        return int(d[2:], 2)
    return int(d, 8) if d.startswith("0") and len(d) > 1 else int(d, 10)


def replay(ctx):
    vin, entry = ctx["vin"], ctx["entry"]
    lines, note = [], None
    if entry == "h_expand_number":
        lit = text_of(vin, "vin_expr")
        val = number_value(lit)
        cands = [(lit, val)] if val is not None else []
        # the verifier's literal may be an exotic pp-number; the canonical witnesses of the same obligation follow
        cands += [("0xFF", 255), ("1L", 1), ("10u", 10), ("1'000", 1000)]
        name = text_of(vin, "vin_name")
        if str(vin.get("vin_defined", "")).upper().startswith("T") and re.match(r"^[A-Za-z_]\w*$", name or ""):
            lines.append("#define %s 3" % name)
        for l, v in cands:
            lines += ["#if %s == %d" % (l, v), "#else", "#error C09 number %s is not kept whole" % l.replace("'", " "), "#endif"]
    elif entry == "h_expand_undefined_identifier":
        ident = text_of(vin, "vin_id")
        if not re.match(r"^[A-Za-z_]\w*$", ident or "") or ident in ("true", "false", "L"):
            ident = "undefined_identifier"
        lines += ["#if (%s) == 0" % ident, "#else", "#error C09 undefined identifier %s is not 0" % ident, "#endif"]
    elif entry == "h_expand_macro":
        lines += ["#define ALIAS undefined_target", "#if ALIAS == 0", "#else", "#error C09 replacement text not rescanned under #if rules", "#endif",
                  "#define PLUS(x) ((x) + undefined_offset)", "#if PLUS(2) == 2", "#else", "#error C09 replacement text of a function-like macro not rescanned", "#endif"]
    else:
        return {"reproduced": False, "note": "no replay template for %s" % entry}
    lines.append("int replay_marker;")
    nb = native.NativeBuild(targets=("parse_file",))
    try:
        if not nb.build():
            return {"reproduced": False, "error": "native build failed", "log": nb.log[-1500:]}
        d = tempfile.mkdtemp(prefix="verif-replay-", dir="/var/tmp")
        f = os.path.join(d, "replay.h")
        open(f, "w", encoding="latin-1").write("\n".join(lines) + "\n")
        rc, out = native.sh(["timeout", "20", nb.bin("parse_file"), f], stdin=b"")
        shutil.rmtree(d, ignore_errors=True)
        return {"reproduced": rc != 0, "input": lines, "cmd": "parse_file replay.h", "observed": native.describe_exit(rc), "output": out[-600:]}
    finally:
        nb.close()
