// Native conformance check of the TypeManager skeleton used by VU c04_involves_protected.
#include "typeManager.h"
#include <type_traits>
static_assert(std::is_same<decltype(&TypeManager::involves_protected), bool (*)(CPPType *)>::value, "involves_protected");
int main() { return 0; }
