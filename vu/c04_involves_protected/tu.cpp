// VU c04_involves_protected: TypeManager::involves_protected(CPPType*), one step over the structure of a type.  A function
// whose signature mentions a type the class does not make public (a private or protected nested class, enum, typedef) is
// not part of the published interface and is not exported - through every type constructor, arrays included.
#define private public
#define protected public
#include "vu_common.h"
//@headers src/dtoolbase src/dtoolutil src/cppparser
//@shadow filename.h dSearchPath.h
//@hdrsubst cpp*.h except=cppDeclaration.h "from=(?m)^\s*virtual CPP\w+ \*as_\w+\(\);\s*$" to=
//@hdrsubst cpp*.h "from=\bvirtual\s+" to=
// the recursive member std::vector<ExpansionNode> cannot be modelled by the array-based vstl vector (a class containing
// an array of itself); no kernel of this VU touches macro expansion nodes
//@hdrsubst cppManifest.h "from=std::vector<ExpansionNode> _nested;" "to=ExpansionNode *_nested_vu_unused;"
//@hdrsubst cppManifest.h "from=ExpansionNode\(std::vector<ExpansionNode> nested[^;]*;" to=
// default arguments that are class temporaries crash the front end (declaration of CPPManifest::expand, not a kernel)
//@hdrsubst cpp*.h "from= = (vector_string|Ignores|CPPManifest::Ignores|YYSTYPE)\(\)" to=
//@hdrinsert cppPreprocessor.h after="void error(const std::string &message, const YYLTYPE &loc) const;" text="void error__body(const std::string &message, const YYLTYPE &loc) const;"
//@bison src/cppparser/cppBison.yxx cppBison.h
#include "dtoolbase.h"
#include "cppType.h"
#include "cppPointerType.h"
#include "cppReferenceType.h"
#include "cppArrayType.h"
#include "cppConstType.h"
#include "cppFunctionType.h"
#include "cppTypedefType.h"
#include "cppParameterList.h"
#include "cppInstance.h"
#include <set>
#include "cppBison.h"
#include <ctype.h>
#include "vstl_globals.h"


#include "cppDeclaration.h"
#include "cppTypeDeclaration.h"
// skeleton of the class (static members; conformance.cpp checks the signatures)
class TypeManager {
public:
  static bool involves_protected(CPPType *type);
  static bool involves_protected__body(CPPType *type);
};
enum { NP = 2 };
static CPPType *g_self, *g_child, *g_ret, *g_param_type[NP];
static int vin_kind; static bool vin_child_involved, vin_ret_involved, vin_param_involved[NP]; static int vin_nparams;
static int vu_subtype(CPPType *t) { return vin_kind; }
bool TypeManager::involves_protected(CPPType *type) {         // the recursive calls: the same judgement on a part
  if (type == g_child) return vin_child_involved;
  if (type == g_ret) return vin_ret_involved;
  for (int i = 0; i < NP; i++) if (type == g_param_type[i]) return vin_param_involved[i];
  __CPROVER_assert(false, "C04.model: only parts of the type are judged recursively"); return false;
}
static CPPPointerType *vu_as_pointer_type(CPPType *t) { CPPPointerType *p = VU_NEW(CPPPointerType); p->_pointing_at = g_child; return p; }
static CPPReferenceType *vu_as_reference_type(CPPType *t) { CPPReferenceType *p = VU_NEW(CPPReferenceType); p->_pointing_at = g_child; return p; }
static CPPArrayType *vu_as_array_type(CPPType *t) { CPPArrayType *p = VU_NEW(CPPArrayType); p->_element_type = g_child; return p; }
static CPPConstType *vu_as_const_type(CPPType *t) { CPPConstType *p = VU_NEW(CPPConstType); p->_wrapped_around = g_child; return p; }
static CPPTypedefType *vu_as_typedef_type(CPPType *t) { CPPTypedefType *p = VU_NEW(CPPTypedefType); p->_type = g_child; return p; }
static CPPFunctionType *vu_as_function_type(CPPType *t) {
  CPPFunctionType *f = VU_NEW(CPPFunctionType); f->_return_type = g_ret;
  CPPParameterList *pl = VU_NEW(CPPParameterList); f->_parameters = pl;
  pl->_parameters._n = vin_nparams; pl->_parameters._trunc = false;
  for (int i = 0; i < NP; i++) { CPPInstance *inst = VU_NEW(CPPInstance); inst->_type = g_param_type[i]; inst->_initializer = nondet_bool() ? (CPPExpression *)vu_alloc(8) : (CPPExpression *)0; pl->_parameters._d[i] = inst; }
  return f;
}
//@extract src/interrogate/typeManager.cxx TypeManager::involves_protected rename=__body "subst1=@type->get_subtype\(\)@vu_subtype(type)@" "subst2=@type->as_(\w+)_type\(\)@vu_as_\1_type(type)@"

void h_involves_protected() {
  g_self = VU_NEW(CPPType); g_child = (CPPType *)vu_alloc(8); g_ret = (CPPType *)vu_alloc(8);
  for (int i = 0; i < NP; i++) { g_param_type[i] = (CPPType *)vu_alloc(8); vin_param_involved[i] = nondet_bool(); }
  vin_kind = nondet_int(); __CPROVER_assume(vin_kind >= CPPDeclaration::ST_simple && vin_kind <= CPPDeclaration::ST_closure);
  vin_child_involved = nondet_bool(); vin_ret_involved = nondet_bool();
  vin_nparams = nondet_int(); __CPROVER_assume(vin_nparams >= 0 && vin_nparams <= NP);
  bool vin_has_decl = nondet_bool(); int vin_vis = nondet_int(); __CPROVER_assume(vin_vis >= V_published && vin_vis <= V_unknown);
  CPPTypeDeclaration *decl = VU_NEW(CPPTypeDeclaration); decl->_vis = (CPPVisibility)vin_vis; g_self->_declaration = vin_has_decl ? decl : (CPPTypeDeclaration *)0;
  bool r = TypeManager::involves_protected__body(g_self);
  bool want;
  switch (vin_kind) {
  case CPPDeclaration::ST_pointer: case CPPDeclaration::ST_reference: case CPPDeclaration::ST_array: case CPPDeclaration::ST_const: case CPPDeclaration::ST_typedef:
    want = vin_child_involved; break;                                            // a derived type or alias mentions what its base type mentions
  case CPPDeclaration::ST_function:
    want = vin_ret_involved; for (int i = 0; i < NP; i++) if (i < vin_nparams && vin_param_involved[i]) want = true; break;    // every parameter counts, with or without default argument
  default:
    want = vin_has_decl && vin_vis > V_public; break;                           // a class, enum ... declared private or protected
  }
  OBL(r == want, "C04.involves_protected: a type mentions a non-public type iff it is declared private/protected itself or one of its parts (pointee, element of an ARRAY, aliased type, return or ANY parameter type) does");
  VU_REACHED();
}
