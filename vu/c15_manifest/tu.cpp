// VU c15_manifest: index arithmetic of CPPManifest on arbitrary macro definition text: the constructor from a
// #define line, parse_parameters, extract_args, stringify.  Bounded in text length (B mode).
#define private public
#define protected public
#include "vu_common.h"
//@headers src/dtoolbase src/dtoolutil src/cppparser
//@shadow filename.h dSearchPath.h
//@hdrsubst cpp*.h except=cppDeclaration.h "from=(?m)^\s*virtual CPP\w+ \*as_\w+\(\);\s*$" to=
//@hdrsubst cpp*.h "from=\bvirtual\s+" to=
// the recursive member std::vector<ExpansionNode> cannot be modelled by the array-based vstl vector (a class containing
// an array of itself); no kernel of this VU touches macro expansion nodes
//@hdrsubst cppManifest.h "from=std::vector<ExpansionNode> _nested;" "to=ExpansionNode *_nested_vu_unused;"
//@hdrsubst cppManifest.h "from=ExpansionNode\(std::vector<ExpansionNode> nested[^;]*;" to=
// default arguments that are class temporaries crash the front end (declaration of CPPManifest::expand, not a kernel)
//@hdrsubst cpp*.h "from= = (vector_string|Ignores|CPPManifest::Ignores|YYSTYPE)\(\)" to=
// R16: the reference member `const CPPPreprocessor &_parser` (bad reference initializer in the front end) becomes a pointer
//@hdrsubst cppManifest.h "from=const CPPPreprocessor &_parser;" "to=CPPPreprocessor *_parser;"
//@hdrsubst cppManifest.h "from=typedef std::vector<ExpansionNode> Expansion;" "to=typedef int Expansion;  /* VU: expansion node lists are outside the model */"
//@bison src/cppparser/cppBison.yxx cppBison.h
#include "dtoolbase.h"
#include "cppPreprocessor.h"
#include "cppBison.h"
#include <ctype.h>
#include "vstl_globals.h"

#include "cppManifest.h"

CPPFile::CPPFile(const Filename &filename, const Filename &filename_as_referenced, Source source) : _source(source), _pragma_once(false) {}
static int g_warnings;
void CPPPreprocessor::warning(const std::string &message) const { g_warnings++; }
// save_expansion builds the expansion node list (recursive vector member: outside the model); contract: it only reads
void CPPManifest::save_expansion(Expansion &expansion, const std::string &exp, const vector_string &parameter_names) { exp._chk(); }
CPPManifest::~CPPManifest() {}

//@extract src/cppparser/cppManifest.cxx CPPManifest::CPPManifest ordinal=0 "subst1=@_parser\(parser\)@_parser((CPPPreprocessor *)&parser)@"
//@extract src/cppparser/cppManifest.cxx CPPManifest::parse_parameters
// R15: `"literal" + s` -> `std::string("literal") + s` (the front end does not find the free operator+ for a char array)
//@extract src/cppparser/cppManifest.cxx CPPManifest::extract_args r15 "subst2=@_parser\.warning@_parser->warning@"
//@extract src/cppparser/cppManifest.cxx CPPManifest::stringify

static void any_text(std::string &s, size_t minlen) {
  s._trunc = false; s._n = nondet_size_t(); __CPROVER_assume(s._n >= minlen && s._n <= std::string::CAP);
  for (size_t i = 0; i < std::string::CAP; i++) { char c = nondet_char(); s._d[i] = (i < s._n) ? c : (char)0; if (i < s._n) __CPROVER_assume(c != 0); }
  s._d[std::string::CAP] = 0;
}
static CPPPreprocessor *g_pp;

// ---- #define <args>: any definition text that starts with a non-blank character
void h_manifest_from_define() {
  std::string vin_args; any_text(vin_args, 1);
  __CPROVER_assume(!isspace((unsigned char)vin_args._d[0]));           // the caller (handle_define_directive) trims
  g_pp = VU_NEW(CPPPreprocessor);
  cppyyltype loc;
  CPPManifest m(*g_pp, vin_args, loc);
  OBL(m._name._n <= vin_args._n, "C15.CPPManifest: the macro name is a prefix of the definition text");
  OBL(!m._has_parameters || m._num_parameters <= vin_args._n, "C15.CPPManifest: no more parameters than characters");
  VU_REACHED();
}

// ---- extract_args on any invocation text
void h_extract_args() {
  std::string vin_expr; any_text(vin_expr, 0);
  size_t vin_p = nondet_size_t(); __CPROVER_assume(vin_p <= vin_expr._n);
  g_pp = VU_NEW(CPPPreprocessor);
  static char storage[sizeof(CPPManifest)];
  CPPManifest *m = VU_NEW(CPPManifest);
  m->_num_parameters = nondet_size_t(); m->_variadic_param = nondet_int(); m->_name._n = 0; m->_name._trunc = false; m->_name._d[0] = 0;
  vector_string args;
  size_t p = vin_p;
  m->extract_args(args, vin_expr, p);
  OBL(p <= vin_expr._n + 1, "C15.extract_args: the cursor stays within one position behind the text");
  VU_REACHED();
}

// ---- stringify on any text
void h_stringify() {
  std::string vin_src; any_text(vin_src, 0);
  __CPROVER_assume(vin_src._n <= 3);                                        // the result (quotes + escapes) must fit the model's capacity
  std::string r = CPPManifest::stringify(vin_src);
  __CPROVER_assume(!r._trunc);
  OBL(r._n >= vin_src._n + 2 && r._d[0] == '"' && r._d[r._n - 1] == '"', "C15.stringify: the result is the text between double quotes (plus escapes)");
  VU_REACHED();
}
