"""Native replay for VU c15_manifest: `#define <text>` (or an invocation) is fed to the parse_file built from the working tree."""
import os, sys, tempfile, shutil
sys.path.insert(0, os.path.join(os.path.dirname(os.path.realpath(__file__)), "..", "..", "lib"))
import native


def text(vin, var):
    try:
        n = int(str(vin.get(var + "._n", "0")).rstrip("ul"))
    except Exception:
        n = 0
    data = b""
    for i in range(n):
        b = vin.get("%s._d[%dl]#bin" % (var, i))
        data += bytes([int(b, 2)]) if b else b"a"
    return data


def replay(ctx):
    vin = ctx["vin"]
    if ctx["entry"] == "h_manifest_from_define":
        content = b"#define " + text(vin, "vin_args") + b"\n"
    elif ctx["entry"] == "h_extract_args":
        content = b"#define M(a,b) a b\nint x = M" + text(vin, "vin_expr") + b"\n"
    else:
        return {"reproduced": False, "note": "no replay template for %s" % ctx["entry"]}
    nb = native.NativeBuild(targets=("parse_file",))
    try:
        if not nb.build():
            return {"reproduced": False, "error": "native build failed", "log": nb.log[-1500:]}
        d = tempfile.mkdtemp(prefix="verif-replay-", dir="/var/tmp")
        f = os.path.join(d, "replay.h")
        open(f, "wb").write(content)
        rc, out = native.sh(["timeout", "20", nb.bin("parse_file"), f], stdin=b"")
        shutil.rmtree(d, ignore_errors=True)
        bad = rc < 0 or rc >= 124
        return {"reproduced": bool(bad), "input_bytes": repr(content), "cmd": "parse_file replay.h", "observed": native.describe_exit(rc), "output": out[-500:]}
    finally:
        nb.close()
