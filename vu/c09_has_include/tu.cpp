// VU c09_has_include: CPPPreprocessor::expand_has_include_function.  __has_include("h") / __has_include(<h>) is replaced
// by 1 or 0 according to find_include (VU c17_find_include) asked with the form of the header name that was written.
#define private public
#define protected public
#include "vu_common.h"
//@headers src/dtoolbase src/dtoolutil src/cppparser
//@shadow filename.h dSearchPath.h
//@hdrsubst cpp*.h except=cppDeclaration.h "from=(?m)^\s*virtual CPP\w+ \*as_\w+\(\);\s*$" to=
//@hdrsubst cpp*.h "from=\bvirtual\s+" to=
// the recursive member std::vector<ExpansionNode> cannot be modelled by the array-based vstl vector (a class containing
// an array of itself); no kernel of this VU touches macro expansion nodes
//@hdrsubst cppManifest.h "from=std::vector<ExpansionNode> _nested;" "to=ExpansionNode *_nested_vu_unused;"
//@hdrsubst cppManifest.h "from=ExpansionNode\(std::vector<ExpansionNode> nested[^;]*;" to=
// default arguments that are class temporaries crash the front end (declaration of CPPManifest::expand, not a kernel)
//@hdrsubst cpp*.h "from= = (vector_string|Ignores|CPPManifest::Ignores|YYSTYPE)\(\)" to=
// R20: the member std::vector<CPPToken> (CPPToken has no default constructor; the array-based vector needs one) is not
// touched by this kernel and becomes a pointer, so that a TYPED CPPPreprocessor object can be built by the real constructor
//@hdrsubst cppPreprocessor.h "from=std::vector<CPPToken> _saved_tokens;" "to=CPPToken *_saved_tokens_vu_unused;"
//@bison src/cppparser/cppBison.yxx cppBison.h
#include "dtoolbase.h"
#include "cppPreprocessor.h"
#include "cppBison.h"
#include <ctype.h>
#include "vstl_globals.h"


// ---- callees (replace form)
static int g_warnings, g_errors;
void CPPPreprocessor::warning(const std::string &message) const { g_warnings++; }
void CPPPreprocessor::error(const std::string &message) const { g_errors++; }
CPPFile::CPPFile(const Filename &filename, const Filename &filename_as_referenced, Source source) : _source(source), _pragma_once(false) {}
// find_include (VU c17_find_include): records what it was asked, answers arbitrarily
static int g_find_calls; static std::string g_find_name; static bool g_find_angle; static bool g_find_answer;
bool CPPPreprocessor::find_include(Filename &filename, bool angle_quotes, CPPFile::Source &source) const { g_find_calls++; g_find_name = filename._filename; g_find_angle = angle_quotes; return g_find_answer; }
static int g_expand_calls;
void CPPPreprocessor::expand_manifests(std::string &expr, bool expand_undefined, const CPPManifest::Ignores &ignores) const { g_expand_calls++; }
// R17: the default argument removed from the copied header (front-end crash) is passed explicitly
static CPPManifest::Ignores *vu_no_ignores() { return VU_NEW(CPPManifest::Ignores); }

//@extract src/cppparser/cppPreprocessor.cxx CPPPreprocessor::CPPPreprocessor
//@extract src/cppparser/cppPreprocessor.cxx CPPPreprocessor::expand_has_include_function r15 "subst1=@expand_manifests\(inc, false\)@expand_manifests(inc, false, *vu_no_ignores())@"

static CPPPreprocessor g_pp_obj;
// ---- __has_include ( "n" ) and __has_include ( <n> ) with optional blanks: find_include is asked for n, with angle
// brackets exactly if the name was written in angle brackets (and angle brackets are not disabled), and the operator
// with its operand becomes 1 or 0
void h_has_include() {
  bool vin_angle = nondet_bool(), vin_sp1 = nondet_bool(), vin_sp2 = nondet_bool();
  char vin_c = nondet_char(); __CPROVER_assume((vin_c >= 'a' && vin_c <= 'z') || vin_c == '.' || vin_c == '/');
  std::string name; name += vin_c; if (nondet_bool()) name += 'h';
  std::string vin_expr; if (vin_sp1) vin_expr += ' '; vin_expr += '('; if (vin_sp2) vin_expr += ' ';
  vin_expr += vin_angle ? '<' : '"'; vin_expr += name; vin_expr += vin_angle ? '>' : '"'; if (vin_sp2) vin_expr += ' '; vin_expr += ')';
  bool vin_rest = nondet_bool(); if (vin_rest) vin_expr += '+';
  __CPROVER_assume(!vin_expr._trunc);
  g_pp_obj._noangles = nondet_bool(); g_find_answer = nondet_bool(); g_find_calls = 0; g_errors = 0; g_warnings = 0;
  size_t p = 0;
  g_pp_obj.expand_has_include_function(vin_expr, 0, p);
  __CPROVER_assume(!vin_expr._trunc);
  OBL(g_find_calls == 1 && g_find_name == name, "C09.has_include: the header named in the operand is looked up once");
  OBL(g_find_angle == (vin_angle && !g_pp_obj._noangles), "C09.has_include: <h> is looked up as #include <h> would be (angle-bracket search), \"h\" as #include \"h\" would be; with -noangles both use the quote search");
  std::string want; want += g_find_answer ? '1' : '0'; if (vin_rest) want += '+';
  OBL(vin_expr == want && p == 1 && g_errors == 0 && g_warnings == 0, "C09.has_include: operator and operand are replaced by 1 if the header is found and by 0 otherwise; the rest of the expression is kept");
  VU_REACHED();
}
