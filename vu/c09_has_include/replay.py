"""Native replay for VU c09_has_include: a header that only the quote search can find (next to the including file) and one
that only the angle search can find (-S directory) are probed with both forms of __has_include through the parse_file
built from the working tree; a group other than the four a conforming preprocessor keeps reproduces."""
import os, sys, tempfile, shutil
sys.path.insert(0, os.path.join(os.path.dirname(os.path.realpath(__file__)), "..", "..", "lib"))
import native

MAIN = """#if __has_include(<local_only.h>)
int wrong_angle_found_local;
#else
int right_angle_skips_local;
#endif
#if __has_include("local_only.h")
int right_quote_finds_local;
#else
int wrong_quote_misses_local;
#endif
#if __has_include(<sys_only.h>)
int right_angle_finds_sys;
#else
int wrong_angle_misses_sys;
#endif
#if __has_include( <no_such.h> ) || __has_include("no_such.h")
int wrong_missing;
#endif
"""
EXPECT = ["int right_angle_skips_local;", "int right_quote_finds_local;", "int right_angle_finds_sys;"]


def replay(ctx):
    nb = native.NativeBuild(targets=("parse_file",))
    try:
        if not nb.build():
            return {"reproduced": False, "error": "native build failed", "log": nb.log[-1500:]}
        d = tempfile.mkdtemp(prefix="verif-replay-", dir="/var/tmp")
        os.makedirs(os.path.join(d, "proj")); os.makedirs(os.path.join(d, "sys"))
        open(os.path.join(d, "proj", "local_only.h"), "w").write("int from_local_h;\n")
        open(os.path.join(d, "sys", "sys_only.h"), "w").write("int from_sys_h;\n")
        open(os.path.join(d, "proj", "main.h"), "w").write(MAIN)
        rc, out = native.sh(["timeout", "20", nb.bin("parse_file"), "-S" + os.path.join(d, "sys"), os.path.join(d, "proj", "main.h")], stdin=b"", cwd=d)
        got = [l.strip() for l in out.splitlines() if l.strip().startswith("int ")]
        shutil.rmtree(d, ignore_errors=True)
        return {"reproduced": got != EXPECT, "input": MAIN, "cmd": "parse_file -S<sys> proj/main.h", "observed": "kept groups: " + " ".join(got), "expected": " ".join(EXPECT)}
    finally:
        nb.close()
