// VU c20_interface: every function of the C query interface (interrogate_interface.cxx, compiled whole) whose parameters are
// indices/positions, over a database with abstract containers of any size: P mode.  Harness entries are generated from
// interrogate_interface.h on every run.
#define private public
#define protected public
#include "vu_common.h"
struct InterrogateModuleDef;
class InterrogateFunction;
int __CPROVER_uninterpreted_first_index(size_t i);
int __CPROVER_uninterpreted_next_index(size_t i);
int __CPROVER_uninterpreted_num_fptrs(size_t i);
inline void vstl_fresh_elem(size_t i, InterrogateModuleDef *&v);
inline void vstl_fresh_value(InterrogateFunction *&v);
//@headers src/dtoolbase src/interrogatedb
//@shadow config_interrogatedb.h indent.h
//@generate gen.py
//@truncate interrogateDatabase.I from=src/interrogatedb/interrogateDatabase.I anchor="lookup_type_by_name(const"
#include "interrogateDatabase.h"
#include "config_interrogatedb.h"
DSearchPath interrogatedb_path;

// Module table model: entry i of _modules is a module definition whose index range is a function of i.
static void *g_fptr_table[4];
inline void vstl_fresh_elem(size_t i, InterrogateModuleDef *&v) {
  v = VU_NEW(InterrogateModuleDef);
  v->first_index = __CPROVER_uninterpreted_first_index(i);
  v->next_index = __CPROVER_uninterpreted_next_index(i);
  v->num_fptrs = __CPROVER_uninterpreted_num_fptrs(i);
  __CPROVER_assume(v->num_fptrs <= 4);          // the table object below has 4 slots; see harness
  v->fptrs = g_fptr_table;
}
inline void vstl_fresh_value(InterrogateFunction *&v) { v = VU_NEW(InterrogateFunction); }

//@extract src/interrogatedb/interrogateType.cxx InterrogateType::InterrogateType ordinal=0
//@extract src/interrogatedb/interrogateFunction.cxx InterrogateFunction::InterrogateFunction ordinal=0
//@extract src/interrogatedb/interrogateDatabase.cxx InterrogateDatabase::InterrogateDatabase
//@extract src/interrogatedb/interrogateDatabase.cxx InterrogateDatabase::get_type
//@extract src/interrogatedb/interrogateDatabase.cxx InterrogateDatabase::get_function
//@extract src/interrogatedb/interrogateDatabase.cxx InterrogateDatabase::get_wrapper
//@extract src/interrogatedb/interrogateDatabase.cxx InterrogateDatabase::get_manifest
//@extract src/interrogatedb/interrogateDatabase.cxx InterrogateDatabase::get_element
//@extract src/interrogatedb/interrogateDatabase.cxx InterrogateDatabase::get_make_seq
//@extract src/interrogatedb/interrogateDatabase.cxx InterrogateDatabase::get_fptr
//@extract src/interrogatedb/interrogateDatabase.cxx InterrogateDatabase::find_module

std::string InterrogateComponent::_empty_string;

// ---------------------------------------------------------------- callee contracts (replace form)
static bool g_load_fails;       // a pending database file cannot be found, opened or read: load_latest reports it through the error flag
void InterrogateDatabase::load_latest() {
  // may load anything: entries may appear, records may change; no request stays pending
  _requests._n = 0;
  if (g_load_fails) _error_flag = true;
  _type_map._gpresent = nondet_bool();
  _function_map._gpresent = nondet_bool();
  _wrapper_map._gpresent = nondet_bool();
  _manifest_map._gpresent = nondet_bool();
  _element_map._gpresent = nondet_bool();
  _make_seq_map._gpresent = nondet_bool();
}


// the positional accessors and counts of the database
//@extract src/interrogatedb/interrogateDatabase.cxx InterrogateDatabase::get_num_global_types
//@extract src/interrogatedb/interrogateDatabase.cxx InterrogateDatabase::get_global_type
//@extract src/interrogatedb/interrogateDatabase.cxx InterrogateDatabase::get_num_all_types
//@extract src/interrogatedb/interrogateDatabase.cxx InterrogateDatabase::get_all_type
//@extract src/interrogatedb/interrogateDatabase.cxx InterrogateDatabase::get_num_global_functions
//@extract src/interrogatedb/interrogateDatabase.cxx InterrogateDatabase::get_global_function
//@extract src/interrogatedb/interrogateDatabase.cxx InterrogateDatabase::get_num_all_functions
//@extract src/interrogatedb/interrogateDatabase.cxx InterrogateDatabase::get_all_function
//@extract src/interrogatedb/interrogateDatabase.cxx InterrogateDatabase::get_num_global_manifests
//@extract src/interrogatedb/interrogateDatabase.cxx InterrogateDatabase::get_global_manifest
//@extract src/interrogatedb/interrogateDatabase.cxx InterrogateDatabase::get_num_global_elements
//@extract src/interrogatedb/interrogateDatabase.cxx InterrogateDatabase::get_global_element
//@extract src/interrogatedb/interrogateDatabase.cxx InterrogateDatabase::get_error_flag

// name lookups and requests are not index functions (callee contracts: arbitrary answers)
TypeIndex InterrogateDatabase::lookup_type_by_name(const std::string &name) { return nondet_int(); }
TypeIndex InterrogateDatabase::lookup_type_by_scoped_name(const std::string &name) { return nondet_int(); }
TypeIndex InterrogateDatabase::lookup_type_by_true_name(const std::string &name) { return nondet_int(); }
ManifestIndex InterrogateDatabase::lookup_manifest_by_name(const std::string &name) { return nondet_int(); }
ElementIndex InterrogateDatabase::lookup_element_by_name(const std::string &name) { return nondet_int(); }
ElementIndex InterrogateDatabase::lookup_element_by_scoped_name(const std::string &name) { return nondet_int(); }
FunctionWrapperIndex InterrogateDatabase::get_wrapper_by_unique_name(const std::string &unique_name) { return nondet_int(); }
// binary_search_module is replaced by its contract (proved in c20_db_index)
// ghost state of the binary_search_module contract
static int g_k;                       // arbitrary module position: the universal quantifier of the postcondition
static int g_outer_begin, g_outer_end;
static bool g_in_body;
#define FIRST(i) __CPROVER_uninterpreted_first_index((size_t)(i))
// precondition "modules sorted by first_index" instantiated at a pair of positions
#define SORTED(a, b) (((a) <= (b)) ? FIRST(a) <= FIRST(b) : FIRST(b) <= FIRST(a))

// recursive call inside the body -> contract in replace form + measure obligation
int InterrogateDatabase::binary_search_module(int begin, int end, FunctionIndex function) {
  if (g_in_body) {
    OBL(0 <= begin && begin < end && (size_t)end <= _modules._n, "C20.binary_search_module: recursive call satisfies the precondition 0 <= begin < end <= size");
    OBL(g_outer_begin <= begin && end <= g_outer_end, "C20.binary_search_module: recursive call stays inside the caller's range");
    OBL(end - begin < g_outer_end - g_outer_begin, "C20.binary_search_module: measure end-begin strictly decreases at each recursive call (bounded time)");
  }
  int r = nondet_int();
  __CPROVER_assume(begin <= r && r < end);
  __CPROVER_assume(r > begin ? FIRST(r) <= function : true);
  __CPROVER_assume((g_k > r && g_k < end) ? FIRST(g_k) > function : true);
  return r;
}

static InterrogateDatabase g_db;     // a typed object (a malloc'ed byte array of this size is too heavy for the back end)
static InterrogateFunction g_fn;
static InterrogateDatabase *make_db() {
  InterrogateDatabase *db = &g_db;
  db->_error_flag = nondet_bool(); db->_next_index = nondet_int(); db->_lookups_fresh = nondet_int();
  db->_requests.vstl_make_abstract(nondet_size_t());
  db->_modules.vstl_make_abstract(nondet_size_t());
  db->_modules._gi = (size_t)-1;      // every entry comes from the index-determined model above
  db->_type_map.vstl_make_abstract();
  db->_function_map.vstl_make_abstract();
  db->_wrapper_map.vstl_make_abstract();
  db->_manifest_map.vstl_make_abstract();
  db->_element_map.vstl_make_abstract();
  db->_make_seq_map.vstl_make_abstract();
  db->_type_map._gk = nondet_int(); db->_type_map._gentry.first = db->_type_map._gk; db->_type_map._gpresent = nondet_bool();
  db->_function_map._gk = nondet_int(); db->_function_map._gentry.first = db->_function_map._gk; db->_function_map._gpresent = nondet_bool();
  db->_wrapper_map._gk = nondet_int(); db->_wrapper_map._gentry.first = db->_wrapper_map._gk; db->_wrapper_map._gpresent = nondet_bool();
  db->_manifest_map._gk = nondet_int(); db->_manifest_map._gentry.first = db->_manifest_map._gk; db->_manifest_map._gpresent = nondet_bool();
  db->_element_map._gk = nondet_int(); db->_element_map._gentry.first = db->_element_map._gk; db->_element_map._gpresent = nondet_bool();
  db->_make_seq_map._gk = nondet_int(); db->_make_seq_map._gentry.first = db->_make_seq_map._gk; db->_make_seq_map._gpresent = nondet_bool();
  db->_function_map._gentry.second = &g_fn;
  return db;
}


// records of the tracked entries belong to no module or to a module definition with valid (or absent) names
static InterrogateModuleDef g_mdef;
static void wf_records() {
  g_mdef.library_name = nondet_bool() ? (const char *)0 : "lib"; g_mdef.module_name = nondet_bool() ? (const char *)0 : "";
  InterrogateModuleDef *d = nondet_bool() ? (InterrogateModuleDef *)0 : &g_mdef;
  g_db._type_map._gentry.second._def = d; g_fn._def = d; g_db._wrapper_map._gentry.second._def = d; g_db._manifest_map._gentry.second._def = d;
  g_db._element_map._gentry.second._def = d; g_db._make_seq_map._gentry.second._def = d;
}
// the database singleton is the database under test (callee contract of get_ptr)
InterrogateDatabase *InterrogateDatabase::get_ptr() { wf_records(); return &g_db; }
//@whole src/interrogatedb/interrogate_interface.cxx
//@splice interface_entries.inc

// ---- the error flag is a query like the others: it answers for every database that has been requested, also for requests
// that are still pending (loads are lazy), so the answer does not depend on which other query happened to be asked first
void h_error_flag_reports_pending_loads() {
  InterrogateDatabase *db = make_db();
  bool vin_flag_before = db->_error_flag; size_t vin_pending = db->_requests._n;
  g_load_fails = nondet_bool();
  bool r = interrogate_error_flag();
  OBL(r == (vin_flag_before || (vin_pending > 0 && g_load_fails)), "C12.error_flag: a requested database file that fails to load is reported by interrogate_error_flag(), whether or not another query forced the load first");
  OBL(db->_requests._n == 0, "C13.error_flag: no request stays pending behind a query");
  VU_REACHED();
}
