#!/usr/bin/env python3
"""Enumerates the C query interface from interrogate_interface.h (working tree) and writes one harness entry per function whose
parameters are all indices/positions: arbitrary ints in, the call completes without violating a precondition, and an index that
is not in the database yields the neutral value (0 / false; strings: see the R2 note in the VU)."""
import re, sys, os
repo, work = sys.argv[1], sys.argv[2]
h = open(os.path.join(repo, "src/interrogatedb/interrogate_interface.h")).read()
INT = {"int", "TypeIndex", "FunctionIndex", "FunctionWrapperIndex", "ManifestIndex", "ElementIndex", "MakeSeqIndex"}
MAP = {"ManifestIndex": "_manifest_map", "ElementIndex": "_element_map", "TypeIndex": "_type_map", "FunctionIndex": "_function_map",
       "FunctionWrapperIndex": "_wrapper_map", "MakeSeqIndex": "_make_seq_map"}
out, n_total, n_gen, skipped = ["// generated from interrogate_interface.h by gen.py"], 0, 0, []
for m in re.finditer(r'EXPCL_INTERROGATEDB\s+([\w \*]+?)\s*\b(interrogate_\w+)\(([^)]*)\);', h):
    ret, name, params = m.group(1).strip(), m.group(2), m.group(3).strip()
    n_total += 1
    ps = [p.strip() for p in params.split(",")] if params and params != "void" else []
    types = [re.sub(r'\s*\w+$', '', p).strip() for p in ps]
    if any(t not in INT for t in types) or ret == "void":
        skipped.append(name); continue
    n_gen += 1
    args = ", ".join("vin_a%d" % i for i in range(len(types)))
    body = ["void h_if_%s() {" % name[len("interrogate_"):], "  InterrogateDatabase *db = make_db();"]
    for i in range(len(types)):
        body.append("  int vin_a%d = nondet_int();" % i)
    first_map = MAP.get(types[0]) if types and types[0] != "int" else None
    NEUTRAL_OVERRIDE = {"interrogate_type_array_size": "1"}      # the neutral (default-constructed) type record has array size 1
    # the declared parameter type is a typedef of int: make_seq_has_comment(ElementIndex) really indexes make_seqs; use the name
    if name.startswith("interrogate_make_seq_"): first_map = "_make_seq_map"
    if first_map:
        # the queried index is the index the abstract map tracks (both are arbitrary, so this loses nothing)
        body.append("  db->%s._gk = vin_a0; db->%s._gentry.first = vin_a0;" % (first_map, first_map))
    if ret == "const char *":
        body.append("  const char *r = %s(%s); (void)r;     /* NULL (= 0) is a defined neutral value for the optional names */" % (name, args))
    elif ret == "void *":
        body.append("  void *r = %s(%s); (void)r;" % (name, args))
    else:
        body.append("  %s r = %s(%s);" % (ret, name, args))
        if first_map:
            neutral = NEUTRAL_OVERRIDE.get(name, "false" if ret == "bool" else "0")
            body.append("  if (db->%s._gk == vin_a0 && !db->%s._gpresent) OBL(r == (%s)%s, \"C20.interface %s: an index that is not in the database yields the neutral value\");" % (first_map, first_map, ret, neutral, name))
    body.append("  VU_REACHED();")
    body.append("}")
    out += body
open(os.path.join(work, "interface_entries.inc"), "w").write("\n".join(out) + "\n")
if n_gen < 100:
    print("too few interface functions recognised: %d of %d" % (n_gen, n_total)); sys.exit(1)
print("interface functions: %d declared, %d under harness, skipped (string/pointer parameters or void): %s" % (n_total, n_gen, " ".join(skipped)))
