#ifndef INDENT_H
#define INDENT_H
#include "dtoolbase.h"
std::ostream &indent(std::ostream &out, int indent_level);
#endif
