#ifndef CONFIG_INTERROGATEDB_H
#define CONFIG_INTERROGATEDB_H
#include "dtoolbase.h"
// VU skeletons: the search path is only appended to by two interface functions that take no index
class Filename { public: std::string _filename; Filename() {} Filename(const char *s) : _filename(s) {} static Filename from_os_specific(const std::string &s) { Filename f; f._filename = s; return f; } };
class DSearchPath { public: void append_directory(const Filename &d) {} void append_path(const std::string &p) {} };
extern DSearchPath interrogatedb_path;
#endif
