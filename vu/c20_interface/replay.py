"""Native replay for VU c20_interface: the function-pointer functions reuse the module-table driver of c20_db_index."""
import os, importlib.util
_p = os.path.join(os.path.dirname(os.path.realpath(__file__)), "..", "c20_db_index", "replay.py")
_s = importlib.util.spec_from_file_location("c20_db_index_replay", _p); _m = importlib.util.module_from_spec(_s); _s.loader.exec_module(_m)


def replay(ctx):
    if ctx["entry"] in ("h_if_wrapper_pointer", "h_if_wrapper_has_pointer"):
        c = dict(ctx); c["entry"] = "h_get_fptr"; c["vin"] = {"vin_wrapper": ctx["vin"].get("vin_a0", "0")}
        return _m.replay(c)
    return {"reproduced": False, "note": "no replay template for %s" % ctx["entry"]}
