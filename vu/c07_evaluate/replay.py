"""Native replay for VU c07_evaluate: feeds `#if (a) op (b)` to the parse_file built from the working tree."""
import os, re, sys, tempfile
sys.path.insert(0, os.path.join(os.path.dirname(os.path.realpath(__file__)), "..", "..", "lib"))
import native

OPS = {"mod": "%", "bitand": "&", "mul": "*", "add": "+", "comma": ",", "sub": "-", "div": "/", "lt": "<", "gt": ">",
       "xor": "^", "bitor": "|", "andand": "&&", "eqcompare": "==", "gecompare": ">=", "lecompare": "<=", "lshift": "<<",
       "necompare": "!=", "oror": "||", "rshift": ">>", "spaceship": "<=>",
       "unary_minus": "-", "unary_negate": "~", "unary_not": "!", "unary_plus": "+", "cond": "?"}


def cint(x):
    x &= 0xffffffff
    return x - (1 << 32) if x & 0x80000000 else x


def tdiv(a, b):
    q = abs(a) // abs(b)
    return q if (a < 0) == (b < 0) else -q


def spec(op, a, b):
    try:
        return {"%": lambda: a - tdiv(a, b) * b, "&": lambda: a & b, "*": lambda: a * b, "+": lambda: a + b, "-": lambda: a - b,
                "/": lambda: tdiv(a, b), "<": lambda: int(a < b), ">": lambda: int(a > b), "^": lambda: a ^ b, "|": lambda: a | b,
                "&&": lambda: int(bool(a) and bool(b)), "==": lambda: int(a == b), ">=": lambda: int(a >= b), "<=": lambda: int(a <= b),
                "<<": lambda: a << b, "!=": lambda: int(a != b), "||": lambda: int(bool(a) or bool(b)), ">>": lambda: a >> b,
                ",": lambda: b}[op]()
    except Exception:
        return None


def lit(v):
    return "(-2147483647-1)" if v == -2147483648 else "(%d)" % v


def replay_typecast(ctx):
    """(T)a as an enumerator: the value the interrogate built from the working tree records against the C++ value."""
    import shutil
    vin = ctx["vin"]
    def iv(name, d=0):
        try:
            return int(str(vin.get(name, d)).rstrip("ul"))
        except Exception:
            return d
    a, to, flags = cint(iv("vin_a", 65537)), iv("vin_to", 7), iv("vin_flags", 4)
    cases = []
    if to == 1:
        cases.append(("bool", int(a != 0)))
    elif to == 7:
        names = []
        if flags & 0x8: names.append("unsigned")
        if flags & 0x10 and not flags & 0x8: names.append("signed")
        if flags & 0x4: names.append("short")
        elif flags & 0x2: names.append("long long")
        elif flags & 0x1: names.append("long")
        else: names.append("int")
        if flags & 0x4:
            v = a & 0xffff
            want = v if flags & 0x8 else (v - 0x10000 if v & 0x8000 else v)
            cases.append((" ".join(names), want))
        elif not flags & 0x8 or a >= 0:
            cases.append((" ".join(names), a))
    cases += [("short", None), ("unsigned short", None)]        # canonical witnesses with the operands below
    lines, wants = [], []
    for i, (t, want) in enumerate(cases):
        val = a if want is not None else (65537 if t == "short" else 70000)
        w = want if want is not None else (1 if t == "short" else 4464)
        lines.append("  V%d = (%s)%s," % (i, t, lit(val))); wants.append(w)
    text = "enum E {\n" + "\n".join(lines) + "\n};\n"
    nb = native.NativeBuild(targets=("interrogate",))
    try:
        if not nb.build():
            return {"reproduced": False, "error": "native build failed", "log": nb.log[-1500:]}
        d = tempfile.mkdtemp(prefix="verif-replay-", dir="/var/tmp")
        open(os.path.join(d, "r.h"), "w").write(text)
        rc, out = native.sh(["timeout", "60", nb.bin("interrogate"), "-promiscuous", "-oc", "o.cxx", "-od", "o.in", "-module", "m", "-library", "l", "-python-native", "r.h"], stdin=b"", cwd=d)
        db = open(os.path.join(d, "o.in"), errors="replace").read() if os.path.exists(os.path.join(d, "o.in")) else ""
        shutil.rmtree(d, ignore_errors=True)
        bad = []
        for i, w in enumerate(wants):
            m = re.search(r"\b\d+ V%d \d+ V%d 0\s+(-?\d+)" % (i, i), db)
            if m and int(m.group(1)) != w:
                bad.append("V%d = (%s)...: recorded %s, C++ value %d" % (i, cases[i][0], m.group(1), w))
        return {"reproduced": bool(bad), "input": text, "cmd": "interrogate -promiscuous -od o.in r.h", "observed": "; ".join(bad) or "recorded values equal the C++ values"}
    finally:
        nb.close()


def replay(ctx):
    vin = ctx["vin"]
    if ctx["entry"] == "h_eval_typecast_int":
        return replay_typecast(ctx)
    m = re.match(r"h_eval_(binary_int|unary_int|trinary_int|total_binary|total_unary|total_trinary)_(\w+)$", ctx["entry"])
    if ctx["entry"] == "h_eval_short_circuit":
        is_or = str(vin.get("vin_is_or", "TRUE")).upper().startswith("T")
        kind, op = "binary_int", "||" if is_or else "&&"
    elif not m or m.group(2) not in OPS:
        return {"reproduced": False, "note": "no replay template for entry %s" % ctx["entry"]}
    else:
        kind, op = m.group(1), OPS[m.group(2)]

    def iv(name, d=1):
        try:
            return cint(int(str(vin.get(name, d)).rstrip("ul")))
        except Exception:
            return d
    a, b, c = iv("vin_a"), iv("vin_b", 0), iv("vin_c")
    if kind.endswith("unary_int") or kind == "total_unary":
        expr = "%s %s" % (op, lit(a))
        want = {"-": -a, "~": ~a, "!": int(not a), "+": a}.get(op)
    elif op == "?":
        expr = "%s ? %s : %s" % (lit(c), lit(a), lit(b)); want = a if c else b
    else:
        expr = "%s %s %s" % (lit(a), op, lit(b)); want = spec(op, a, b)
    lines = []
    if want is not None and -2 ** 31 <= want < 2 ** 31 and "total" not in kind:
        lines += ["#if (%s) != %s" % (expr, lit(want)), "#error C07 value mismatch: %s should be %d" % (expr.replace("#", ""), want), "#endif"]
    else:
        lines += ["#if %s" % expr, "#endif"]
    lines.append("int replay_marker;")
    nb = native.NativeBuild(targets=("parse_file",))
    try:
        if not nb.build():
            return {"reproduced": False, "error": "native build failed", "log": nb.log[-1500:]}
        d = tempfile.mkdtemp(prefix="verif-replay-", dir="/var/tmp")
        f = os.path.join(d, "replay.h")
        open(f, "w").write("\n".join(lines) + "\n")
        rc, out = native.sh(["timeout", "20", nb.bin("parse_file"), f], stdin=b"")
        import shutil; shutil.rmtree(d, ignore_errors=True)
        bad = rc != 0
        return {"reproduced": bool(bad), "input": lines, "cmd": "parse_file replay.h", "observed": native.describe_exit(rc), "output": out[-600:]}
    finally:
        nb.close()
