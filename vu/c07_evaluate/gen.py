#!/usr/bin/env python3
"""Derives the operator alphabet of CPPExpression from the grammar actions of cppBison.yxx:
every first argument of `new CPPExpression(<tok>, ...)` with its arity, and every type-trait token."""
import re, sys, os
repo, work = sys.argv[1], sys.argv[2]
g = open(os.path.join(repo, "src/cppparser/cppBison.yxx")).read()
ops = {1: set(), 2: set(), 3: set()}
for m in re.finditer(r'new CPPExpression\(', g):
    i = m.end()
    depth, args, cur = 1, [], ""
    in_char = False
    while depth > 0 and i < len(g):
        c = g[i]
        if c == "'" and not in_char:
            j = g.index("'", i + 1 + (1 if g[i + 1] == '\\' else 0))
            cur += g[i:j + 1]; i = j + 1; continue
        if c == '(':
            depth += 1
        elif c == ')':
            depth -= 1
            if depth == 0:
                break
        if c == ',' and depth == 1:
            args.append(cur.strip()); cur = ""
        else:
            cur += c
        i += 1
    args.append(cur.strip())
    tok = args[0]
    if re.match(r"^'(\\?.)'$", tok) or re.match(r'^[A-Z_][A-Z_0-9]+$', tok):
        n = len(args) - 1
        if n in ops:
            ops[n].add(tok)
traits = sorted(set(re.findall(r'CPPExpression::type_trait\((KW_[A-Z_]+)', g)))
with open(os.path.join(work, "alphabet.h"), "w") as o:
    o.write("// generated from src/cppparser/cppBison.yxx by gen.py\n")
    for n, name in ((1, "unary"), (2, "binary"), (3, "trinary")):
        l = sorted(ops[n])
        o.write("static const int vu_%s_ops[] = { %s };\n" % (name, ", ".join(l) if l else "0"))
        o.write("enum { VU_N_%s = %d };\n" % (name.upper(), len(l)))
    o.write("static const int vu_traits[] = { %s };\nenum { VU_N_TRAITS = %d };\n" % (", ".join(traits), len(traits)))
def ident(tok):
    names = {"'%'": "mod", "'&'": "bitand", "'*'": "mul", "'+'": "add", "','": "comma", "'-'": "sub", "'.'": "dot", "'/'": "div",
             "'<'": "lt", "'>'": "gt", "'['": "subscript", "'^'": "xor", "'f'": "call", "'|'": "bitor", "'?'": "cond"}
    return names.get(tok, re.sub(r'\W', '_', tok.lower()))
with open(os.path.join(work, "entries.inc"), "w") as o:
    o.write("// generated: one harness entry per operator token of the grammar\n")
    for tok in sorted(ops[2]):
        o.write("void h_eval_binary_int_%s() { eval_binary_int(%s); }\n" % (ident(tok), tok))
        o.write("void h_eval_total_binary_%s() { eval_total(2, %s); }\n" % (ident(tok), tok))
    for tok in sorted(ops[1]):
        o.write("void h_eval_unary_int_%s() { eval_unary_int(%s); }\n" % (ident(tok), tok))
        o.write("void h_eval_total_unary_%s() { eval_total(1, %s); }\n" % (ident(tok), tok))
    for tok in sorted(ops[3]):
        o.write("void h_eval_trinary_int_%s() { eval_trinary_int(%s); }\n" % (ident(tok), tok))
        o.write("void h_eval_total_trinary_%s() { eval_total(3, %s); }\n" % (ident(tok), tok))
if not ops[1] or not ops[2] or not ops[3]:
    print("empty alphabet", ops); sys.exit(1)
print("unary=%s binary=%s trinary=%s traits=%d" % (sorted(ops[1]), sorted(ops[2]), sorted(ops[3]), len(traits)))
