// VU c07_evaluate: CPPExpression::evaluate (one step, every operator the grammar can build),
// Result constructors and conversions.  Loop-free over full-domain int operands: P mode.
#define private public
#define protected public
#include "vu_common.h"
//@headers src/dtoolbase src/dtoolutil src/cppparser
//@shadow filename.h
//@hdrsubst cpp*.h except=cppDeclaration.h "from=(?m)^\s*virtual CPP\w+ \*as_\w+\(\);\s*$" to=
//@hdrsubst cpp*.h "from=\bvirtual\s+" to=
//@hdrinsert cppExpression.h after="Result evaluate() const;" text="Result evaluate__body() const;"
//@bison src/cppparser/cppBison.yxx cppBison.h
//@generate gen.py
#include "dtoolbase.h"
#include "cppExpression.h"
#include "cppType.h"
#include "cppSimpleType.h"
class CPPPointerType; class CPPConstType;   // only tested against null by the kernel
#include "cppInstance.h"
#include "cppExtensionType.h"
#include "cppBison.h"
#include <limits.h>
#include <stdint.h>
#include "vstl_globals.h"
#include "alphabet.h"

// skeleton of the one class whose real header the front end rejects (conformance: conformance.cpp)
class CPPStructType {
public:
  bool has_virtual_destructor() const { return nondet_bool(); }
  bool is_abstract() const { return nondet_bool(); }
  bool is_base_of(const CPPStructType *other) const { return nondet_bool(); }
  bool is_empty() const { return nondet_bool(); }
  bool is_final() const { return nondet_bool(); }
  bool is_polymorphic() const { return nondet_bool(); }
};

extern "C" void abort(void) {
  __CPROVER_assert(false, "C15.evaluate: abort() is unreachable for every operator the grammar can build");
  __CPROVER_assume(false);
}

//@extract src/cppparser/cppExpression.cxx CPPExpression::Result::Result ordinal=0
//@extract src/cppparser/cppExpression.cxx CPPExpression::Result::Result ordinal=1
//@extract src/cppparser/cppExpression.cxx CPPExpression::Result::Result ordinal=2
//@extract src/cppparser/cppExpression.cxx CPPExpression::Result::Result ordinal=3
//@extract src/cppparser/cppExpression.cxx CPPExpression::Result::as_integer
//@extract src/cppparser/cppExpression.cxx CPPExpression::Result::as_real
//@extract src/cppparser/cppExpression.cxx CPPExpression::Result::as_pointer
//@extract src/cppparser/cppExpression.cxx CPPExpression::Result::as_boolean
// R9: virtual down-cast calls x->as_T_type() go to contract stubs vu_as_T_type(x) (the front end's
// virtual dispatch of covariant return types crashes symex); the stubs return null or an arbitrary object
static CPPConstType *vu_as_const_type(CPPType *t) { return nondet_bool() ? (CPPConstType *)0 : (CPPConstType *)vu_alloc(8); }
static CPPSimpleType *g_simple_answer; static bool g_simple_fixed;      // the typecast entry fixes the answer so that the oracle sees the same type
static CPPSimpleType *vu_as_simple_type(CPPType *t) { if (g_simple_fixed) return g_simple_answer; return nondet_bool() ? (CPPSimpleType *)0 : VU_NEW(CPPSimpleType); }
static CPPPointerType *vu_as_pointer_type(CPPType *t) { return nondet_bool() ? (CPPPointerType *)0 : (CPPPointerType *)vu_alloc(8); }
static CPPExtensionType *vu_as_extension_type(CPPType *t) { return nondet_bool() ? (CPPExtensionType *)0 : VU_NEW(CPPExtensionType); }
static CPPStructType *vu_as_struct_type(CPPType *t) { return nondet_bool() ? (CPPStructType *)0 : VU_NEW(CPPStructType); }
//@extract src/cppparser/cppExpression.cxx CPPExpression::evaluate rename=__body "subst1=@([\w.]+(?:->[\w.]+)*)->as_(\w+)_type\(\)@vu_as_\2_type(\1)@"

// constructors of expression nodes: the real ones; their base-class constructors are outside the kernel
CPPFile::CPPFile(const Filename &filename, const Filename &filename_as_referenced, Source source) : _source(source), _pragma_once(false) {}
CPPDeclaration::CPPDeclaration(const CPPFile &file, CPPAttributeList attr) : _file(file) { _vis = V_unknown; _template_scope = 0; _leading_comment = 0; }
//@extract src/cppparser/cppExpression.cxx CPPExpression::CPPExpression "sig=\bCPPExpression\(int value\)"
//@extract src/cppparser/cppExpression.cxx CPPExpression::CPPExpression "sig=\bCPPExpression\(int unary_operator"
//@extract src/cppparser/cppExpression.cxx CPPExpression::CPPExpression "sig=\bCPPExpression\(int binary_operator"
//@extract src/cppparser/cppExpression.cxx CPPExpression::CPPExpression "sig=\bCPPExpression\(int trinary_operator"

// ---- callees outside the kernel (replace form): arbitrary answers
std::ostream &operator<<(std::ostream &out, const CPPDeclaration &decl) { return out; }
size_t CPPType::get_sizeof() const { return nondet_size_t(); }
CPPType *CPPExpression::determine_type() const { return nondet_bool() ? (CPPType *)0 : VU_NEW(CPPType); }
bool CPPType::is_default_constructible() const { return nondet_bool(); }
bool CPPType::is_constructible(const CPPType *t) const { return nondet_bool(); }
bool CPPType::is_convertible_to(const CPPType *t) const { return nondet_bool(); }
bool CPPType::is_destructible() const { return nondet_bool(); }
bool CPPType::is_enum() const { return nondet_bool(); }
bool CPPType::is_fundamental() const { return nondet_bool(); }
bool CPPType::is_trivial() const { return nondet_bool(); }
bool CPPType::is_standard_layout() const { return nondet_bool(); }
bool CPPType::is_trivially_copyable() const { return nondet_bool(); }

// ---- the recursive callee: evaluate() of an operand returns the ghost result of that operand
static const CPPExpression *g_op1, *g_op2, *g_op3;
static CPPExpression::Result g_r1, g_r2, g_r3;
CPPExpression::Result CPPExpression::evaluate() const {
  if (this == g_op1) return g_r1;
  if (this == g_op2) return g_r2;
  if (this == g_op3) return g_r3;
  __CPROVER_assert(false, "C15.evaluate: only the node's own operands are evaluated");
  return CPPExpression::Result();
}

static CPPExpression::Result int_result(int v) { CPPExpression::Result r; r._type = CPPExpression::RT_integer; r._u._integer = v; return r; }
static CPPExpression::Result any_result() {
  CPPExpression::Result r; int k = nondet_int(); __CPROVER_assume(k >= 0 && k <= 3);
  r._type = (CPPExpression::ResultType)k;
  if (k == CPPExpression::RT_integer) r._u._integer = nondet_int();
  else if (k == CPPExpression::RT_real) r._u._real = nondet_double();
  else r._u._pointer = 0;
  return r;
}
// operand nodes: typed objects built by the real CPPExpression(int) constructor (their own value is irrelevant:
// evaluate() of an operand is the ghost result above)
static CPPExpression g_o1(0), g_o2(0), g_o3(0);
#define IS_ERR(r) ((r)._type == CPPExpression::RT_error)
#define IS_INT(r) ((r)._type == CPPExpression::RT_integer)
static bool fits(long v) { return v >= INT_MIN && v <= INT_MAX; }

// ================= binary operators on integer operands: value (C07) and totality (C15)
static void eval_binary_int(int op) {
  int vin_a = nondet_int(), vin_b = nondet_int();
  long a = vin_a, b = vin_b;
  CPPExpression *o1 = &g_o1, *o2 = &g_o2;
  g_op1 = o1; g_op2 = o2; g_op3 = 0; g_r1 = int_result(vin_a); g_r2 = int_result(vin_b);
  // the property speaks of expressions whose operands and results fit in int
  bool evaluable = true; long spec = 0; bool has_spec = true; bool is_div = false;
  switch (op) {
  case '+': spec = a + b; break;
  case '-': spec = a - b; break;
  case '*': spec = a * b; break;
  // division is specified by its defining property a == q*b + rem, |rem| < |b|, rem has the sign of a
  // (a second divider as oracle is out of the SAT back ends' reach)
  case '/': case '%': if (b == 0 || (a == INT_MIN && b == -1)) evaluable = false; else is_div = true; break;
  case '|': spec = vin_a | vin_b; break;
  case '&': spec = vin_a & vin_b; break;
  case '^': spec = vin_a ^ vin_b; break;
  // a shift count outside 0..31 is not a well-formed constant expression: outside the property's domain
  case LSHIFT: __CPROVER_assume(b >= 0 && b <= 31 && a >= 0); spec = a << b; break;
  case RSHIFT: __CPROVER_assume(b >= 0 && b <= 31); spec = a >> b; break;     // arithmetic shift, as every C++ compiler (and C++20) defines it
  case '<': spec = a < b; break;
  case '>': spec = a > b; break;
  case LECOMPARE: spec = a <= b; break;
  case GECOMPARE: spec = a >= b; break;
  case EQCOMPARE: spec = a == b; break;
  case NECOMPARE: spec = a != b; break;
  case SPACESHIP: spec = (a > b) - (a < b); break;
  case OROR: spec = (a != 0 || b != 0); break;
  case ANDAND: spec = (a != 0 && b != 0); break;
  case ',': spec = b; break;
  default: has_spec = false; break;       // '.', POINTSAT, '[', 'f': not integer constant expressions
  }
  __CPROVER_assume(!evaluable || fits(spec));
#ifdef VU_SMALL_OPERANDS
  __CPROVER_assume(a >= -4095 && a <= 4095 && b >= -4095 && b <= 4095);
#endif
#ifdef KF_C07_XOR
  __CPROVER_assume(op != '^');
#endif
#ifdef KF_C07_DIVZERO
  __CPROVER_assume(!((op == '/' || op == '%') && !evaluable));
#endif
#ifdef KF_C07_LOGICAL_VALUE
  __CPROVER_assume(!(op == OROR || op == ANDAND));
#endif
  CPPExpression node(op, o1, o2); CPPExpression *e = &node;
  CPPExpression::Result r = e->evaluate__body();
  if (has_spec) {
    if (evaluable && is_div) {
      OBL(IS_INT(r), "C07.evaluate: a binary operator on int operands yields the value C++ computes");
      long q = (op == '/') ? (long)r._u._integer : 0, rem = (op == '%') ? (long)r._u._integer : 0;
      if (op == '/') rem = a - q * b;
      long absb = b < 0 ? -b : b, absr = rem < 0 ? -rem : rem;
      bool sign_ok = rem == 0 || ((rem > 0) == (a > 0));
      if (op == '/') OBL(absr < absb && sign_ok, "C07.evaluate: a / b is the quotient truncated toward zero (a == q*b + r, |r| < |b|, r has the sign of a)");
      else {
        OBL(absr < absb && sign_ok, "C07.evaluate: a % b has |r| < |b| and the sign of a");
#ifdef VU_SMALL_OPERANDS
        OBL(r._u._integer == vin_a % vin_b, "C07.evaluate: a % b is the remainder of the truncated division (bounded: |a|,|b| <= 4095)");
#endif
      }
    } else if (evaluable) {
      OBL(IS_INT(r) && r._u._integer == (int)spec, "C07.evaluate: a binary operator on int operands yields the value C++ computes");
    } else {
      OBL(IS_ERR(r), "C07.evaluate: a division C++ cannot evaluate (zero divisor, INT_MIN/-1) is reported as unevaluated, never as a number");
    }
  } else {
    OBL(IS_ERR(r), "C07.evaluate: member access, subscript and call are not evaluated to a number");
  }
  VU_REACHED();
}

// ================= unary operators on an integer operand
static void eval_unary_int(int op) {
  int vin_a = nondet_int(); long a = vin_a;
  CPPExpression *o1 = &g_o1;
  g_op1 = o1; g_op2 = 0; g_op3 = 0; g_r1 = int_result(vin_a);
  long spec = 0; bool has_spec = true;
  switch (op) {
  case UNARY_NOT: spec = !a; break;
  case UNARY_NEGATE: spec = ~vin_a; break;
  case UNARY_MINUS: spec = -a; break;
  case UNARY_PLUS: spec = a; break;
  default: has_spec = false; break;       // *, &, call, noexcept
  }
  __CPROVER_assume(fits(spec));
  CPPExpression node(op, o1); CPPExpression *e = &node;
  CPPExpression::Result r = e->evaluate__body();
  if (has_spec) OBL(IS_INT(r) && r._u._integer == (int)spec, "C07.evaluate: a unary operator on an int operand yields the value C++ computes");
  else OBL(IS_ERR(r), "C07.evaluate: dereference, address-of, call and noexcept are not evaluated to a number");
  VU_REACHED();
}

// ================= conditional operator
static void eval_trinary_int(int op) {
  int vin_c = nondet_int(), vin_a = nondet_int(), vin_b = nondet_int();
  CPPExpression *o1 = &g_o1, *o2 = &g_o2, *o3 = &g_o3;
  g_op1 = o1; g_op2 = o2; g_op3 = o3; g_r1 = int_result(vin_c);
  // the operand that is not selected may be unevaluable: short circuit
  g_r2 = vin_c ? int_result(vin_a) : any_result();
  g_r3 = vin_c ? any_result() : int_result(vin_b);
  CPPExpression node(op, o1, o2, o3); CPPExpression *e = &node;
  CPPExpression::Result r = e->evaluate__body();
  OBL(op == '?', "C07.evaluate: the only ternary operator is ?:");
  OBL(IS_INT(r) && r._u._integer == (vin_c ? vin_a : vin_b), "C07.evaluate: c ? a : b yields a when c is non-zero and b otherwise, whatever the other operand is");
  VU_REACHED();
}

// ================= short circuit: the operand that C++ does not evaluate may be unevaluable
void h_eval_short_circuit() {
  bool vin_is_or = nondet_bool();
  int vin_a = nondet_int();
  CPPExpression *o1 = &g_o1, *o2 = &g_o2;
  g_op1 = o1; g_op2 = o2; g_op3 = 0; g_r1 = int_result(vin_a); g_r2 = any_result();
  __CPROVER_assume(vin_is_or ? vin_a != 0 : vin_a == 0);          // left operand decides
#ifdef KF_C07_LOGICAL_VALUE
  __CPROVER_assume(vin_is_or ? vin_a == 1 : true);
#endif
  CPPExpression node(vin_is_or ? OROR : ANDAND, o1, o2); CPPExpression *e = &node;
  CPPExpression::Result r = e->evaluate__body();
  OBL(IS_INT(r) && r._u._integer == (vin_is_or ? 1 : 0), "C07.evaluate: a || b is 1 when a is non-zero and a && b is 0 when a is zero, whatever b is");
  VU_REACHED();
}

// ================= totality (C15): any operator of the alphabet, operands of any result type
static void eval_total(int vin_kind, int op) {
  CPPExpression *o1 = &g_o1, *o2 = &g_o2, *o3 = &g_o3;
  o1->_type = CPPExpression::T_integer;      // (a string-literal operand is covered by h_eval_subscript)
  g_op1 = o1; g_op2 = vin_kind >= 2 ? o2 : 0; g_op3 = vin_kind == 3 ? o3 : 0;
  g_r1 = any_result(); g_r2 = any_result(); g_r3 = any_result();
  // integer operands only where arithmetic exceptions are concerned; real arithmetic never traps
  if (IS_INT(g_r1) && (vin_kind == 1 || IS_INT(g_r2))) {
    long a = g_r1._u._integer, b = g_r2._u._integer;
    if (op == '+') __CPROVER_assume(fits(a + b));
    if (op == '-') __CPROVER_assume(fits(a - b));
    if (op == '*') __CPROVER_assume(fits(a * b));
    if (op == UNARY_MINUS) __CPROVER_assume(fits(-a));
    if (op == LSHIFT) __CPROVER_assume(b >= 0 && b <= 31 && a >= 0 && fits(a << b));
    if (op == RSHIFT) __CPROVER_assume(b >= 0 && b <= 31);
  } else {
    // real/pointer operands: conversion of an out-of-range double or of a pointer to int is not modelled,
    // so integer-only operators are exercised with int operands only
    bool int_only = op == LSHIFT || op == RSHIFT || op == UNARY_NEGATE || op == '%' || op == '|' || op == '&' || op == '^' || op == '?' || op == '[';
    bool has_real = g_r1._type == CPPExpression::RT_real || (vin_kind >= 2 && g_r2._type == CPPExpression::RT_real);
    bool arith = op == '+' || op == '-' || op == '*' || op == '/' || op == UNARY_MINUS;
    __CPROVER_assume(!int_only && (has_real || !arith));
  }
#ifdef KF_C07_XOR
  __CPROVER_assume(op != '^');
#endif
#ifdef KF_C07_DIVZERO
  __CPROVER_assume(!((op == '/' || op == '%') && IS_INT(g_r1) && IS_INT(g_r2) && (g_r2._u._integer == 0 || (g_r1._u._integer == INT_MIN && g_r2._u._integer == -1))));
#endif
  CPPExpression n1(op, o1), n2(op, o1, o2), n3(op, o1, o2, o3);
  CPPExpression *e = vin_kind == 1 ? &n1 : vin_kind == 2 ? &n2 : &n3;
  CPPExpression::Result r = e->evaluate__body();
  OBL(r._type == CPPExpression::RT_integer || r._type == CPPExpression::RT_real || r._type == CPPExpression::RT_pointer || r._type == CPPExpression::RT_error,
      "C15.evaluate: every operator/operand combination returns a well-formed result");
  VU_REACHED();
}

//@splice entries.inc

// ================= leaves
void h_eval_leaf() {
  CPPExpression leaf(0); CPPExpression *e = &leaf;
  int vin_v = nondet_int();
  bool vin_as_bool = nondet_bool();
  if (vin_as_bool) { e->_type = CPPExpression::T_boolean; e->_u._boolean = (vin_v != 0); }
  else { e->_type = CPPExpression::T_integer; __CPROVER_assume(vin_v >= 0); e->_u._integer = (unsigned long long)vin_v; }
  g_op1 = g_op2 = g_op3 = 0;
  CPPExpression::Result r = e->evaluate__body();
  OBL(IS_INT(r) && r._u._integer == (vin_as_bool ? (vin_v != 0) : vin_v), "C07.evaluate: an integer or boolean literal evaluates to its value");
  VU_REACHED();
}

// ================= Result conversions
void h_result_conversions() {
  int vin_v = nondet_int();
  CPPExpression::Result r(vin_v);
  OBL(r._type == CPPExpression::RT_integer && r.as_integer() == vin_v, "C07.Result: an int result converts back to the same int");
  OBL(r.as_boolean() == (vin_v != 0), "C07.Result: as_boolean of an int is (v != 0)");
  OBL(r.as_real() == (double)vin_v, "C07.Result: as_real of an int is exact");
  CPPExpression::Result e;
  OBL(e._type == CPPExpression::RT_error, "C07.Result: the default result is the unevaluated marker");
  VU_REACHED();
}

// ================= casts to an integer or bool type: (T)a has the value C++ gives it, or is reported as unevaluated
void h_eval_typecast_int() {
  int vin_a = nondet_int();
  g_op1 = &g_o1; g_op2 = 0; g_op3 = 0; g_r1 = int_result(vin_a);
  CPPSimpleType *st = VU_NEW(CPPSimpleType);
  int vin_to = nondet_int(), vin_flags = nondet_int(), vin_kind = nondet_int();
  __CPROVER_assume(vin_to >= CPPSimpleType::T_unknown && vin_to <= CPPSimpleType::T_void && (vin_flags & ~0x1f) == 0);
  __CPROVER_assume(vin_kind >= CPPExpression::T_typecast && vin_kind <= CPPExpression::T_reinterpret_cast);
  st->_type = (CPPSimpleType::Type)vin_to; st->_flags = vin_flags;
  g_simple_fixed = true; g_simple_answer = st;
  CPPExpression e(0);                              // as CPPExpression::typecast_op builds the node
  e._type = (CPPExpression::Type)vin_kind; e._u._typecast._to = (CPPType *)vu_alloc(8); e._u._typecast._op1 = &g_o1;
  CPPExpression::Result r = e.evaluate__body();
  bool has_spec = false; long want = 0;
  bool f_short = (vin_flags & CPPSimpleType::F_short) != 0, f_unsigned = (vin_flags & CPPSimpleType::F_unsigned) != 0;
  if (vin_to == CPPSimpleType::T_bool) { has_spec = true; want = vin_a != 0; }
  else if (vin_to == CPPSimpleType::T_int) {
    if (f_short) { has_spec = true; want = f_unsigned ? (long)(unsigned short)vin_a : (long)(short)vin_a; }      // [conv.integral]: modulo 2^16
    else if (!f_unsigned) { has_spec = true; want = vin_a; }                                                      // int, long, long long: value kept
    else if (vin_a >= 0) { has_spec = true; want = vin_a; }                                                       // unsigned: kept when representable in int (else outside the property)
  }
  if (has_spec) OBL(IS_ERR(r) || (r._type != CPPExpression::RT_real && r._type != CPPExpression::RT_pointer && r.as_integer() == want), "C07.evaluate: a cast to bool or to an integer type yields the value C++ computes ((short)65537 is 1), or the expression is reported as unevaluated");
  g_simple_fixed = false;
  VU_REACHED();
}
