// VU c07_enum_increment: the implicit value of an enumerator without initializer (CPPEnumType::add_element): the block that
// derives it from the previous enumerator's expression is extracted (R5) and put under the contract value == previous + 1.
#define private public
#define protected public
#include "vu_common.h"
//@headers src/dtoolbase src/dtoolutil src/cppparser
//@shadow filename.h
//@hdrsubst cpp*.h except=cppDeclaration.h "from=(?m)^\s*virtual CPP\w+ \*as_\w+\(\);\s*$" to=
//@hdrsubst cpp*.h "from=\bvirtual\s+" to=
//@bison src/cppparser/cppBison.yxx cppBison.h
#include "dtoolbase.h"
#include "cppExpression.h"
#include "cppType.h"
#include "cppSimpleType.h"
class CPPPointerType; class CPPConstType;   // only tested against null by the kernel
#include "cppInstance.h"
#include "cppExtensionType.h"
#include "cppBison.h"
#include <limits.h>
#include <stdint.h>
#include "vstl_globals.h"


#include "cppEnumType.h"
CPPFile::CPPFile(const Filename &filename, const Filename &filename_as_referenced, Source source) : _source(source), _pragma_once(false) {}
CPPDeclaration::CPPDeclaration(const CPPFile &file, CPPAttributeList attr) : _file(file) { _vis = V_unknown; _template_scope = 0; _leading_comment = 0; }
//@extract src/cppparser/cppExpression.cxx CPPExpression::CPPExpression "sig=\bCPPExpression\(int value\)"
//@extract src/cppparser/cppExpression.cxx CPPExpression::CPPExpression "sig=\bCPPExpression\(unsigned long long value\)"
//@extract src/cppparser/cppExpression.cxx CPPExpression::CPPExpression "sig=\bCPPExpression\(int binary_operator"

// the block of add_element that chooses the value expression of an enumerator
struct VuInst { CPPExpression *_initializer; };
//@block src/cppparser/cppEnumType.cxx "start=  if (value == nullptr) {" "end=  _last_value = value;" "head=static void vu_enum_value(CPPExpression *value, CPPExpression *&_last_value, VuInst *inst)"

// ghost valuation of expressions: X is an arbitrary sub-expression with an arbitrary int value; literals and + as in evaluate()
static CPPExpression *g_X; static int vin_x;
static bool val(const CPPExpression *e, long *out, int depth) {
  if (e == g_X) { *out = vin_x; return true; }
  if (e->_type == CPPExpression::T_integer) { *out = (long)(int)e->_u._integer; return true; }
  if (e->_type == CPPExpression::T_binary_operation && depth > 0) {
    long a, b; if (!val(e->_u._op._op1, &a, depth - 1) || !val(e->_u._op._op2, &b, depth - 1)) return false;
    if (e->_u._op._operator == '+') { *out = a + b; return true; }
    if (e->_u._op._operator == '-') { *out = a - b; return true; }
  }
  return false;
}
static CPPExpression g_xnode(0);
void h_enum_implicit_value() {
  g_X = &g_xnode; g_xnode._type = CPPExpression::T_variable;          // an opaque sub-expression (earlier enumerator, constant, ...)
  vin_x = nondet_int(); int vin_n = nondet_int(); int vin_shape = nondet_int();
  __CPROVER_assume(vin_shape >= 0 && vin_shape <= 5 && vin_n >= 0 && vin_n < INT_MAX);   // (literal + 1 stays an int: the property keeps every intermediate in int range)
  CPPExpression lit(vin_n);
  CPPExpression add('+', g_X, &lit), sub('-', g_X, &lit), radd('+', &lit, g_X), nested('-', &add, &lit);
  CPPExpression *last = vin_shape == 0 ? (CPPExpression *)0 : vin_shape == 1 ? &lit : vin_shape == 2 ? &add : vin_shape == 3 ? &sub : vin_shape == 4 ? &nested : &radd;
  long prev = 0; bool have_prev = last == 0 || val(last, &prev, 2);
  __CPROVER_assume(have_prev);
  long want = last == 0 ? 0 : prev + 1;
  __CPROVER_assume(want >= INT_MIN && want <= INT_MAX && prev >= INT_MIN && prev <= INT_MAX);
  VuInst inst; CPPExpression *lv = last;
  vu_enum_value(0, lv, &inst);
  long got; bool ok = val(inst._initializer, &got, 3);
  OBL(ok && got == want, "C07.enum: an enumerator without initializer gets the previous enumerator's value plus one (0 for the first), whatever form the previous initializer has");
  OBL(lv == inst._initializer, "C07.enum: the chosen expression becomes the reference for the next enumerator");
  VU_REACHED();
}
