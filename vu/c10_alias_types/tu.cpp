// VU c10_alias_types: a typedef (alias) and a const-qualified type answer the class-trait questions exactly as the type they
// name / wrap (C++: an alias IS the type; const does not change constructibility or destructibility at type level).
#define private public
#define protected public
#include "vu_common.h"
//@headers src/dtoolbase src/dtoolutil src/cppparser
//@shadow filename.h dSearchPath.h
//@hdrsubst cpp*.h except=cppDeclaration.h "from=(?m)^\s*virtual CPP\w+ \*as_\w+\(\);\s*$" to=
//@hdrsubst cpp*.h "from=\bvirtual\s+" to=
// the recursive member std::vector<ExpansionNode> cannot be modelled by the array-based vstl vector (a class containing
// an array of itself); no kernel of this VU touches macro expansion nodes
//@hdrsubst cppManifest.h "from=std::vector<ExpansionNode> _nested;" "to=ExpansionNode *_nested_vu_unused;"
//@hdrsubst cppManifest.h "from=ExpansionNode\(std::vector<ExpansionNode> nested[^;]*;" to=
// default arguments that are class temporaries crash the front end (declaration of CPPManifest::expand, not a kernel)
//@hdrsubst cpp*.h "from= = (vector_string|Ignores|CPPManifest::Ignores|YYSTYPE)\(\)" to=
//@bison src/cppparser/cppBison.yxx cppBison.h
#include "dtoolbase.h"
#include "cppTypedefType.h"
#include "cppConstType.h"
#include "cppBison.h"
#include <ctype.h>
#include "vstl_globals.h"


// the aliased / wrapped type's own answers (callee contracts): one arbitrary bool per question
static bool vin_is_default_constructible, vin_is_copy_constructible, vin_is_copy_assignable, vin_is_destructible, vin_is_trivial, vin_is_trivially_copyable, vin_is_standard_layout, vin_is_fundamental;
bool CPPType::is_default_constructible() const { return vin_is_default_constructible; }
bool CPPType::is_copy_constructible() const { return vin_is_copy_constructible; }
bool CPPType::is_copy_assignable() const { return vin_is_copy_assignable; }
bool CPPType::is_destructible() const { return vin_is_destructible; }
bool CPPType::is_trivial() const { return vin_is_trivial; }
bool CPPType::is_trivially_copyable() const { return vin_is_trivially_copyable; }
bool CPPType::is_standard_layout() const { return vin_is_standard_layout; }
bool CPPType::is_fundamental() const { return vin_is_fundamental; }
//@extract src/cppparser/cppTypedefType.cxx CPPTypedefType::is_default_constructible
//@extract src/cppparser/cppTypedefType.cxx CPPTypedefType::is_copy_constructible
//@extract src/cppparser/cppTypedefType.cxx CPPTypedefType::is_copy_assignable
//@extract src/cppparser/cppTypedefType.cxx CPPTypedefType::is_destructible
//@extract src/cppparser/cppTypedefType.cxx CPPTypedefType::is_trivial
//@extract src/cppparser/cppTypedefType.cxx CPPTypedefType::is_trivially_copyable
//@extract src/cppparser/cppTypedefType.cxx CPPTypedefType::is_standard_layout
//@extract src/cppparser/cppTypedefType.cxx CPPTypedefType::is_fundamental
//@extract src/cppparser/cppConstType.cxx CPPConstType::is_default_constructible
//@extract src/cppparser/cppConstType.cxx CPPConstType::is_copy_constructible
//@extract src/cppparser/cppConstType.cxx CPPConstType::is_destructible
//@extract src/cppparser/cppConstType.cxx CPPConstType::is_trivial
//@extract src/cppparser/cppConstType.cxx CPPConstType::is_trivially_copyable
//@extract src/cppparser/cppConstType.cxx CPPConstType::is_standard_layout
//@extract src/cppparser/cppConstType.cxx CPPConstType::is_fundamental
static void any_answers() {
  vin_is_default_constructible = nondet_bool();
  vin_is_copy_constructible = nondet_bool();
  vin_is_copy_assignable = nondet_bool();
  vin_is_destructible = nondet_bool();
  vin_is_trivial = nondet_bool();
  vin_is_trivially_copyable = nondet_bool();
  vin_is_standard_layout = nondet_bool();
  vin_is_fundamental = nondet_bool();
}
void h_typedef_traits() {
  any_answers();
  CPPTypedefType *t = VU_NEW(CPPTypedefType); t->_type = (CPPType *)vu_alloc(8);
  OBL(t->is_default_constructible() == vin_is_default_constructible, "C10.typedef: is_default_constructible of an alias equals is_default_constructible of the aliased type");
  OBL(t->is_copy_constructible() == vin_is_copy_constructible, "C10.typedef: is_copy_constructible of an alias equals is_copy_constructible of the aliased type");
  OBL(t->is_copy_assignable() == vin_is_copy_assignable, "C10.typedef: is_copy_assignable of an alias equals is_copy_assignable of the aliased type");
  OBL(t->is_destructible() == vin_is_destructible, "C10.typedef: is_destructible of an alias equals is_destructible of the aliased type");
  OBL(t->is_trivial() == vin_is_trivial, "C10.typedef: is_trivial of an alias equals is_trivial of the aliased type");
  OBL(t->is_trivially_copyable() == vin_is_trivially_copyable, "C10.typedef: is_trivially_copyable of an alias equals is_trivially_copyable of the aliased type");
  OBL(t->is_standard_layout() == vin_is_standard_layout, "C10.typedef: is_standard_layout of an alias equals is_standard_layout of the aliased type");
  OBL(t->is_fundamental() == vin_is_fundamental, "C10.typedef: is_fundamental of an alias equals is_fundamental of the aliased type");
  VU_REACHED();
}
void h_const_traits() {
  any_answers();
  CPPConstType *t = VU_NEW(CPPConstType); t->_wrapped_around = (CPPType *)vu_alloc(8);
  OBL(t->is_default_constructible() == vin_is_default_constructible, "C10.const: is_default_constructible of a const-qualified type equals is_default_constructible of the type");
  OBL(t->is_copy_constructible() == vin_is_copy_constructible, "C10.const: is_copy_constructible of a const-qualified type equals is_copy_constructible of the type");
  OBL(t->is_destructible() == vin_is_destructible, "C10.const: is_destructible of a const-qualified type equals is_destructible of the type");
  OBL(t->is_trivial() == vin_is_trivial, "C10.const: is_trivial of a const-qualified type equals is_trivial of the type");
  OBL(t->is_trivially_copyable() == vin_is_trivially_copyable, "C10.const: is_trivially_copyable of a const-qualified type equals is_trivially_copyable of the type");
  OBL(t->is_standard_layout() == vin_is_standard_layout, "C10.const: is_standard_layout of a const-qualified type equals is_standard_layout of the type");
  OBL(t->is_fundamental() == vin_is_fundamental, "C10.const: is_fundamental of a const-qualified type equals is_fundamental of the type");
  VU_REACHED();
}
