"""Native replay for VU c07_expr_compare: the counterexample says two operator expressions that differ (in operator or in
an operand) are not kept apart.  The witness is rebuilt as two array members whose bound expressions differ in that way; the
interrogate built from the working tree must record each member with its own bound expression."""
import os, re, sys, tempfile, shutil
sys.path.insert(0, os.path.join(os.path.dirname(os.path.realpath(__file__)), "..", "..", "lib"))
import native

CASES = {"h_compare_unary": [("-(-3)", "~(-3)")],
         "h_compare_binary": [("4+2", "4-2"), ("4*2", "4/2"), ("6-2", "6-3")],
         "h_compare_trinary": [("1?2:3", "1?2:4")]}


def replay(ctx):
    cases = CASES.get(ctx["entry"])
    if not cases:
        return {"reproduced": False, "note": "no replay template for %s" % ctx["entry"]}
    nb = native.NativeBuild(targets=("interrogate",))
    try:
        if not nb.build():
            return {"reproduced": False, "error": "native build failed", "log": nb.log[-1500:]}
        d = tempfile.mkdtemp(prefix="verif-replay-", dir="/var/tmp")
        text = "struct S {\n" + "".join("  int a%d[%s]; int b%d[%s];\n" % (i, x, i, y) for i, (x, y) in enumerate(cases)) + "};\n"
        open(os.path.join(d, "replay.h"), "w").write(text)
        rc, out = native.sh(["timeout", "30", nb.bin("interrogate"), "-promiscuous", "-oc", "o.cxx", "-od", "o.in", "-module", "m",
                             "-library", "l", "-python-native", "replay.h"], stdin=b"", cwd=d)
        db = open(os.path.join(d, "o.in"), errors="replace").read() if os.path.exists(os.path.join(d, "o.in")) else ""
        bad = []
        for i in range(len(cases)):
            ma = re.search(r"getter for int S::a%d\[(.*?)\];" % i, db)
            mb = re.search(r"getter for int S::b%d\[(.*?)\];" % i, db)
            if ma and mb and ma.group(1) == mb.group(1):
                bad.append("a%d[%s] and b%d[%s] are both recorded with bound %s" % (i, cases[i][0], i, cases[i][1], ma.group(1)))
        shutil.rmtree(d, ignore_errors=True)
        return {"reproduced": bool(bad), "input": text, "cmd": "interrogate -promiscuous -od o.in ... replay.h", "observed": "; ".join(bad) or native.describe_exit(rc), "output": out[-300:]}
    finally:
        nb.close()
