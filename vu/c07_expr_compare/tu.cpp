// VU c07_expr_compare: CPPExpression::is_equal / is_less on operator nodes.  These two functions decide whether two
// array types (CPPArrayType::is_equal/is_less compare the bound expressions) are merged into one by CPPType::new_type,
// so they carry the recorded array bound.  One step, loop-free, full-domain operator tokens and operand identities: P mode.
#define private public
#define protected public
#include "vu_common.h"
//@headers src/dtoolbase src/dtoolutil src/cppparser
//@shadow filename.h
//@hdrsubst cpp*.h except=cppDeclaration.h "from=(?m)^\s*virtual CPP\w+ \*as_\w+\(\);\s*$" to=
//@hdrsubst cpp*.h "from=\bvirtual\s+" to=
//@bison src/cppparser/cppBison.yxx cppBison.h
#include "dtoolbase.h"
#include "cppExpression.h"
#include "cppType.h"
#include "cppIdentifier.h"
#include "cppFunctionGroup.h"
#include "cppBison.h"
#include "vstl_globals.h"

// ---- callees (replace form).  Comparison of the OPERANDS (CPPDeclaration::operator== / != / <, which dispatch to the
// operands' own is_equal/is_less) is the induction hypothesis: on the operands the three operators are one consistent
// total order of structural identities.  An operand's identity is carried in its integer value.
static long long key_of(const CPPDeclaration *d) { return ((const CPPExpression *)d)->_u._integer; }
bool CPPDeclaration::operator == (const CPPDeclaration &other) const { return key_of(this) == key_of(&other); }
bool CPPDeclaration::operator != (const CPPDeclaration &other) const { return key_of(this) != key_of(&other); }
bool CPPDeclaration::operator < (const CPPDeclaration &other) const { return key_of(this) < key_of(&other); }
CPPExpression *CPPDeclaration::as_expression() { return (CPPExpression *)this; }
CPPFile::CPPFile(const Filename &filename, const Filename &filename_as_referenced, Source source) : _source(source), _pragma_once(false) {}
CPPDeclaration::CPPDeclaration(const CPPFile &file, CPPAttributeList attr) : _file(file) { _vis = V_unknown; _template_scope = 0; _leading_comment = 0; }
//@extract src/cppparser/cppExpression.cxx CPPExpression::CPPExpression "sig=\bCPPExpression\(int value\)"
//@extract src/cppparser/cppExpression.cxx CPPExpression::CPPExpression "sig=\bCPPExpression\(int unary_operator"
//@extract src/cppparser/cppExpression.cxx CPPExpression::CPPExpression "sig=\bCPPExpression\(int binary_operator"
//@extract src/cppparser/cppExpression.cxx CPPExpression::CPPExpression "sig=\bCPPExpression\(int trinary_operator"

//@extract src/cppparser/cppExpression.cxx CPPExpression::is_equal
//@extract src/cppparser/cppExpression.cxx CPPExpression::is_less

// two operator nodes of the same arity (1, 2 or 3) as the grammar actions build them, over operands of arbitrary identity
#define OPERANDS() \
  CPPExpression a1(nondet_int()), a2(nondet_int()), a3(nondet_int()), b1(nondet_int()), b2(nondet_int()), b3(nondet_int()); \
  int vin_op_a = nondet_int(), vin_op_b = nondet_int();
#define CHECK(A, B, SAME) \
  bool eq = (A).is_equal(&(B)), lt = (A).is_less(&(B)), gt = (B).is_less(&(A)); \
  OBL(eq == (SAME), "C07.is_equal: two operator expressions are equal exactly if they have the same operator and pairwise equal operands (4+2 is not 4-2)"); \
  OBL(!(lt && gt), "C07.is_less: the order is asymmetric"); \
  OBL((SAME) ? (!lt && !gt) : (lt || gt), "C07.is_less: the order separates exactly the expressions that differ in operator or operands (array types with different bound expressions are not merged)"); \
  VU_REACHED();

void h_compare_unary() {
  OPERANDS();
  CPPExpression a(vin_op_a, &a1), b(vin_op_b, &b1);
  bool same = vin_op_a == vin_op_b && key_of(&a1) == key_of(&b1);
  CHECK(a, b, same);
}
void h_compare_binary() {
  OPERANDS();
  CPPExpression a(vin_op_a, &a1, &a2), b(vin_op_b, &b1, &b2);
  bool same = vin_op_a == vin_op_b && key_of(&a1) == key_of(&b1) && key_of(&a2) == key_of(&b2);
  CHECK(a, b, same);
}
void h_compare_trinary() {
  OPERANDS();
  CPPExpression a(vin_op_a, &a1, &a2, &a3), b(vin_op_b, &b1, &b2, &b3);
  bool same = vin_op_a == vin_op_b && key_of(&a1) == key_of(&b1) && key_of(&a2) == key_of(&b2) && key_of(&a3) == key_of(&b3);
  CHECK(a, b, same);
}
