// VU c03_symbols: symbols derived by interrogate for its wrappers: InterrogateBuilder::hash_string and clean_identifier
// (valid identifier characters) and InterfaceMaker::hash_function_signature (pairwise distinct hashes even when the
// 24-bit signature hashes collide).  Skeleton classes in env.h (conformance-checked natively).
#include "env.h"
//@usings dummy

static bool is_ident_char(char c) { return (c >= 'A' && c <= 'Z') || (c >= 'a' && c <= 'z') || (c >= '0' && c <= '9') || c == '_'; }
static void any_text(std::string &s, size_t maxlen) {
  s._trunc = false; s._n = nondet_size_t(); __CPROVER_assume(s._n <= maxlen);
  for (size_t i = 0; i < std::string::CAP; i++) { char c = nondet_char(); s._d[i] = (i < s._n) ? c : (char)0; }
  s._d[std::string::CAP] = 0;
}

#ifdef VU_PART_HASH_STRING
//@extract src/interrogate/interrogateBuilder.cxx InterrogateBuilder::hash_string
//@extract src/interrogate/interrogateBuilder.cxx InterrogateBuilder::clean_identifier
void h_hash_string() {
  std::string vin_name; any_text(vin_name, std::string::CAP);
  int vin_shift = nondet_bool() ? 5 : 11;                      // the two call sites
  std::string r = InterrogateBuilder::hash_string(vin_name, vin_shift);
  __CPROVER_assume(!r._trunc);
  OBL(r._n == 4, "C03.hash_string: the hash is four characters long");
  OBL(is_ident_char(r._d[0]) && is_ident_char(r._d[1]) && is_ident_char(r._d[2]) && is_ident_char(r._d[3]), "C03.hash_string: every character of the hash may appear in a C identifier");
  std::string r2 = InterrogateBuilder::hash_string(vin_name, vin_shift);
  OBL(r2 == r, "C03.hash_string: the hash is a function of the name (same name, same symbol in code and database)");
  VU_REACHED();
}
void h_clean_identifier() {
  std::string vin_name; any_text(vin_name, std::string::CAP);
  std::string r = InterrogateBuilder::clean_identifier(vin_name);
  __CPROVER_assume(!r._trunc);
  bool ok = true; for (size_t i = 0; i < std::string::CAP; i++) if (i < r._n && !is_ident_char(r._d[i])) ok = false;
  OBL(ok, "C03.clean_identifier: the result consists of identifier characters only");
  bool dbl = false; for (size_t i = 0; i + 1 < std::string::CAP; i++) if (i + 1 < r._n && r._d[i] == '_' && r._d[i + 1] == '_' ) dbl = true;
  OBL(!dbl, "C03.clean_identifier: no double underscore is introduced (reserved identifiers)");
  // the alphanumeric characters of the name are kept, in order
  size_t j = 0; bool kept = true;
  for (size_t i = 0; i < std::string::CAP; i++) if (i < vin_name._n && isalnum((unsigned char)vin_name._d[i])) {
    while (j < r._n && r._d[j] == '_') j++;
    if (j >= r._n || r._d[j] != vin_name._d[i]) kept = false; else j++;
  }
  OBL(kept && j == r._n, "C03.clean_identifier: the alphanumeric characters of the name are kept in order, everything else becomes single underscores between them");
  VU_REACHED();
}
#endif

#ifdef VU_PART_SIGNATURE
// ---- hash_string replaced by its contract: an arbitrary four-character identifier that is a function of (name, offset).
// The ghost table gives each signature its two hashes, so that any collision pattern can occur.
static FunctionRemap g_r[3]; static std::string g_h5[3], g_h11[3];
std::string InterrogateBuilder::hash_string(const std::string &name, int shift_offset) {
  for (int i = 0; i < 3; i++) if (g_r[i]._function_signature == name) return shift_offset == 5 ? g_h5[i] : g_h11[i];
  __CPROVER_assert(false, "C03.model: only registered signatures are hashed");
  return std::string();
}
extern "C" void abort(void) { __CPROVER_assume(false); }       // "signature repeated" is excluded by the precondition (distinct signatures)
//@extract src/interrogate/interfaceMaker.cxx InterfaceMaker::hash_function_signature
// Collision patterns are enumerated concretely (symbolic hash values made the symbolic execution of the 26-letter
// fallback loop too expensive): pattern digit i tells whether signature i shares its hash with signature 0.
bool true_wrapper_names;
static InterrogateModuleDef g_def = { "LH" };
static InterfaceMaker g_maker;
static void scenario(int count, bool p1, bool s1, bool p2, bool s2) {
  g_maker._def = &g_def; true_wrapper_names = nondet_bool();
  g_r[0]._function_signature = "s1"; g_r[1]._function_signature = "s2"; g_r[2]._function_signature = "s3";
  g_h5[0] = "AAAA"; g_h11[0] = "BBBB";
  g_h5[1] = p1 ? "AAAA" : "CCCC"; g_h11[1] = s1 ? "BBBB" : "DDDD";
  g_h5[2] = p2 ? "AAAA" : "EEEE"; g_h11[2] = s2 ? "BBBB" : "FFFF";
  for (int i = 0; i < 3; i++) { any_text(g_r[i]._wrapper_name, 2); any_text(g_r[i]._unique_name, 2); }
  std::string wn0 = g_r[0]._wrapper_name, un0 = g_r[0]._unique_name, wn1 = g_r[1]._wrapper_name, un1 = g_r[1]._unique_name;
  g_maker.hash_function_signature(&g_r[0]);
  g_maker.hash_function_signature(&g_r[1]);
  if (count == 3) g_maker.hash_function_signature(&g_r[2]);
  for (int i = 0; i < 3; i++) __CPROVER_assume(!g_r[i]._hash._trunc);
  OBL(!(g_r[0]._hash == g_r[1]._hash), "C03.hash_function_signature: two wrappers never get the same hash, whatever their signature hashes collide on");
  if (count == 3) OBL(!(g_r[0]._hash == g_r[2]._hash) && !(g_r[1]._hash == g_r[2]._hash), "C03.hash_function_signature: three wrappers get pairwise distinct hashes");
  for (int i = 0; i < 3; i++) if (i < count) {
    bool ok = g_r[i]._hash._n >= 4; for (size_t k = 0; k < std::string::CAP; k++) if (k < g_r[i]._hash._n && !is_ident_char(g_r[i]._hash._d[k])) ok = false;
    OBL(ok, "C03.hash_function_signature: every hash is a non-empty run of identifier characters");
    std::map<std::string, FunctionRemap *>::const_iterator hi = g_maker._wrappers_by_hash.find(g_r[i]._hash);
    OBL(hi != g_maker._wrappers_by_hash.end() && (*hi).second == &g_r[i], "C03.hash_function_signature: the table maps each wrapper's final hash to that wrapper");
  }
  OBL(g_r[0]._wrapper_name == wn0 && g_r[0]._unique_name == un0 && g_r[1]._wrapper_name == wn1 && g_r[1]._unique_name == un1,
      "C11.hash_function_signature: names already handed out for earlier wrappers (recorded in the database) are not changed by a later collision");
  VU_REACHED();
}
void h_sig_2_no_collision() { scenario(2, false, false, false, false); }
void h_sig_2_primary_collision() { scenario(2, true, false, false, false); }
void h_sig_2_double_collision() { scenario(2, true, true, false, false); }
void h_sig_3_primary_collision() { scenario(3, true, false, true, false); }
void h_sig_3_double_collision() { scenario(3, true, true, true, true); }
void h_sig_3_mixed_collision() { scenario(3, true, true, true, false); }
void h_sig_3_late_collision() { scenario(3, false, false, true, true); }
#endif
