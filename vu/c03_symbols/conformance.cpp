// Native conformance check: every member of the VU's skeleton classes exists in the real class with the identical type.
#include "interrogateBuilder.h"
#include "interfaceMaker.h"
#include "functionRemap.h"
#include <type_traits>
static_assert(std::is_same<decltype(&InterrogateBuilder::clean_identifier), std::string (*)(const std::string &)>::value, "clean_identifier");
static_assert(std::is_same<decltype(&InterrogateBuilder::hash_string), std::string (*)(const std::string &, int)>::value, "hash_string");
static_assert(std::is_same<decltype(FunctionRemap::_function_signature), std::string>::value, "_function_signature");
static_assert(std::is_same<decltype(FunctionRemap::_hash), std::string>::value, "_hash");
static_assert(std::is_same<decltype(FunctionRemap::_unique_name), std::string>::value, "_unique_name");
static_assert(std::is_same<decltype(FunctionRemap::_wrapper_name), std::string>::value, "_wrapper_name");
static_assert(std::is_same<InterfaceMaker::WrappersByHash, std::map<std::string, FunctionRemap *> >::value, "WrappersByHash");
static_assert(std::is_same<decltype(InterfaceMaker::_wrappers_by_hash), InterfaceMaker::WrappersByHash>::value, "_wrappers_by_hash");
static_assert(std::is_same<decltype(&InterfaceMaker::hash_function_signature), void (InterfaceMaker::*)(FunctionRemap *)>::value, "hash_function_signature");
#include "interrogate.h"
static_assert(std::is_same<decltype(FunctionRemap::_reported_name), std::string>::value, "_reported_name");
static_assert(std::is_same<decltype(InterfaceMaker::_def), InterrogateModuleDef *>::value, "_def");
static_assert(std::is_same<decltype(InterrogateModuleDef::library_hash_name), const char *>::value, "library_hash_name");
static_assert(std::is_same<decltype(&InterfaceMaker::get_wrapper_prefix), std::string (InterfaceMaker::*)()>::value, "get_wrapper_prefix");
static_assert(std::is_same<decltype(&InterfaceMaker::get_unique_prefix), std::string (InterfaceMaker::*)()>::value, "get_unique_prefix");
static_assert(std::is_same<decltype(true_wrapper_names), bool>::value, "true_wrapper_names");
int main() { return 0; }
