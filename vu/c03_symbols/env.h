// Skeletons of the classes the C03 kernels live in: only the members those kernels use.  Their agreement with the real
// declarations is checked natively on every run by conformance.cpp (g++ -fsyntax-only against the real headers).
#ifndef C03_ENV_H
#define C03_ENV_H
#include "vu_common.h"
#include <string>
#include <map>
#include <iostream>
#include <ctype.h>
#include "vstl_globals.h"
#define nout (std::cerr)
struct InterrogateModuleDef { const char *library_hash_name; };     // (the member of the real C struct that name derivation uses)
extern bool true_wrapper_names;
class InterrogateBuilder {
public:
  static std::string clean_identifier(const std::string &name);
  static std::string hash_string(const std::string &name, int shift_offset);
};
class FunctionRemap {
public:
  std::string _function_signature;
  std::string _hash;
  std::string _unique_name;
  std::string _reported_name;
  std::string _wrapper_name;
};
class InterfaceMaker {
public:
  typedef std::map<std::string, FunctionRemap *> WrappersByHash;
  WrappersByHash _wrappers_by_hash;
  void hash_function_signature(FunctionRemap *remap);
  std::string get_wrapper_prefix() { return "w"; }       // (virtual in the real class; callee contracts: some fixed prefix)
  std::string get_unique_prefix() { return "u"; }
  InterrogateModuleDef *_def;
};
#endif
