"""Native replay for VU c15_template_args: the failed obligation is the termination of the template-argument loop.  Its
canonical witnesses (an argument list of a parameter pack cut off by the end of the input) are fed to the parse_file built
from the working tree; a time-out or a signal reproduces."""
import os, sys, tempfile, shutil
sys.path.insert(0, os.path.join(os.path.dirname(os.path.realpath(__file__)), "..", "..", "lib"))
import native

WITNESSES = [b"template<class... T> struct A{}; A<int,", b"template<int... N> struct B{}; B<1,",
             b"template<class T, class... U> struct C{}; C<int, char", b"template<class... T> struct A{}; A<"]


def replay(ctx):
    nb = native.NativeBuild(targets=("parse_file",))
    try:
        if not nb.build():
            return {"reproduced": False, "error": "native build failed", "log": nb.log[-1500:]}
        d = tempfile.mkdtemp(prefix="verif-replay-", dir="/var/tmp")
        seen = []
        for i, w in enumerate(WITNESSES):
            f = os.path.join(d, "replay%d.h" % i)
            open(f, "wb").write(w)
            rc, out = native.sh(["timeout", "10", nb.bin("parse_file"), f], stdin=b"")
            if rc < 0 or rc >= 124:
                seen.append("%r: %s" % (w, native.describe_exit(rc)))
        shutil.rmtree(d, ignore_errors=True)
        return {"reproduced": bool(seen), "input": [repr(w) for w in WITNESSES], "cmd": "parse_file replayN.h",
                "observed": "; ".join(seen) or "all witnesses end with a diagnostic"}
    finally:
        nb.close()
