// VU c15_template_args: the argument loop of CPPPreprocessor::nested_parse_template_instantiation.  The nested parser
// and the lexer are callees (replace form) that draw on a ghost count of remaining input tokens; the obligation is that the
// loop ends within (tokens + formal parameters) rounds for every formal parameter list, including parameter packs, and
// every way the callees can fail - in particular when the input ends in the middle of the argument list.
#define private public
#define protected public
#include "vu_common.h"
//@headers src/dtoolbase src/dtoolutil src/cppparser
//@shadow filename.h dSearchPath.h
//@hdrsubst cpp*.h except=cppDeclaration.h "from=(?m)^\s*virtual CPP\w+ \*as_\w+\(\);\s*$" to=
//@hdrsubst cpp*.h "from=\bvirtual\s+" to=
// the recursive member std::vector<ExpansionNode> cannot be modelled by the array-based vstl vector (a class containing
// an array of itself); no kernel of this VU touches macro expansion nodes
//@hdrsubst cppManifest.h "from=std::vector<ExpansionNode> _nested;" "to=ExpansionNode *_nested_vu_unused;"
//@hdrsubst cppManifest.h "from=ExpansionNode\(std::vector<ExpansionNode> nested[^;]*;" to=
// default arguments that are class temporaries crash the front end (declaration of CPPManifest::expand, not a kernel)
//@hdrsubst cpp*.h "from= = (vector_string|Ignores|CPPManifest::Ignores|YYSTYPE)\(\)" to=
// R20: the member std::vector<CPPToken> (CPPToken has no default constructor; the array-based vector needs one) is not
// touched by this kernel and becomes a pointer, so that a TYPED CPPPreprocessor object can be built by the real constructor
//@hdrsubst cppPreprocessor.h "from=std::vector<CPPToken> _saved_tokens;" "to=CPPToken *_saved_tokens_vu_unused;"
//@bison src/cppparser/cppBison.yxx cppBison.h
#include "dtoolbase.h"
#include "cppPreprocessor.h"
#include "cppBison.h"
#include "cppTemplateScope.h"
#include "cppTemplateParameterList.h"
#include "cppClassTemplateParameter.h"
#include "cppInstance.h"
#include "cppSimpleType.h"
#include "cppExpression.h"
#include <ctype.h>
#include "vstl_globals.h"


#ifndef VU_TOK_MAX
#define VU_TOK_MAX 3
#endif
// ---- ghost input: how many tokens are left before the end of the input
static int g_left; static int g_rounds;
static void vu_take(CPPPreprocessor *pp) {
  // one token is read from the input: at the end of the input the lexer enters S_eof (internal_get_next_token/get());
  // in a nested parse a top-level comma ends the argument (S_end_nested), a top-level > ends the list as well
  if (pp->_state == CPPPreprocessor::S_eof || pp->_state == CPPPreprocessor::S_end_nested) return;
  if (g_left == 0) { pp->_state = CPPPreprocessor::S_eof; return; }
  g_left--;
  if (nondet_bool()) { pp->_state = CPPPreprocessor::S_end_nested; if (nondet_bool()) pp->_parsing_template_params = false; }
}
static CPPFile g_file; static YYSTYPE g_lval;
CPPToken::CPPToken(int token, int line_number, int col_number, const CPPFile &file, const std::string &str, const YYSTYPE &lval) : _token(token) {}
CPPToken::CPPToken(const CPPToken &copy) : _token(copy._token) {}
static CPPToken vu_token(int t) { static std::string s; return CPPToken(t, 0, 0, g_file, s, g_lval); }
CPPToken CPPPreprocessor::internal_get_next_token() { int before = g_left; vu_take(this); return vu_token(before == g_left ? 0 : (_parsing_template_params ? 1 : '>')); }
// peek_next_token: looks at the next token without removing it from the (saved) input; at the end of the input the
// lexer has entered S_eof
CPPToken CPPPreprocessor::peek_next_token() { if (g_left == 0 && _state != S_end_nested) _state = S_eof; return vu_token(g_left > 0 ? 1 : 0); }
// R17: the token constructor's default arguments (class temporaries, removed from the header copy) are passed explicitly
static void vu_saved_push(const CPPToken &t) {}
// the nested parsers: read tokens until the argument ends (comma, >, end of input) or a syntax error stops them; when
// input is left they consume at least one token
CPPScope *current_scope; CPPScope *global_scope;
static void vu_parse(CPPPreprocessor *pp) { if (g_left > 0) { vu_take(pp); if (nondet_bool()) vu_take(pp); if (nondet_bool()) vu_take(pp); } else vu_take(pp); }
CPPType *parse_type(CPPPreprocessor *pp, CPPScope *cs, CPPScope *gs) { vu_parse(pp); return nondet_bool() ? (CPPType *)0 : (CPPType *)vu_alloc(8); }
CPPExpression *parse_const_expr(CPPPreprocessor *pp, CPPScope *cs, CPPScope *gs) { vu_parse(pp); return nondet_bool() ? (CPPExpression *)0 : (CPPExpression *)vu_alloc(8); }
void CPPPreprocessor::skip_to_end_nested() { for (int i = 0; i <= VU_TOK_MAX; i++) if (_state != S_end_nested && _state != S_eof) vu_take(this); }
void CPPPreprocessor::skip_to_angle_bracket() { for (int i = 0; i <= VU_TOK_MAX; i++) if (_parsing_template_params && _state != S_eof) { _state = S_nested; vu_take(this); } }
void CPPPreprocessor::warning(const std::string &message) const {}
void CPPPreprocessor::warning(const std::string &message, const YYLTYPE &loc) const {}
int CPPPreprocessor::get_line_number() const { return 1; }
int CPPPreprocessor::get_col_number() const { return 1; }
CPPFile::CPPFile(const Filename &filename, const Filename &filename_as_referenced, Source source) : _source(source), _pragma_once(false) {}
CPPType *CPPType::new_type(CPPType *type) { return type; }
// the front end does not instantiate the copy constructor of a vector that is only copied implicitly (CPPToken holds a
// YYSTYPE, which holds a CPPAttributeList): instantiate it here
static void vu_force_instantiation() { std::vector<CPPAttributeList::Attribute> a; std::vector<CPPAttributeList::Attribute> b(a); }
//@extract src/cppparser/cppTemplateParameterList.cxx CPPTemplateParameterList::CPPTemplateParameterList
// placeholder objects for an argument that did not parse (constructors outside the loop logic)
static CPPSimpleType *vu_unknown_type() { return (CPPSimpleType *)vu_alloc(8); }
static CPPExpression *vu_zero_expr() { return (CPPExpression *)vu_alloc(8); }
// formal parameters: two declarations whose kind (type parameter, constant parameter, neither) and pack-ness are arbitrary
static CPPDeclaration *g_decl[2]; static int g_kind[2]; static CPPClassTemplateParameter *g_ctp[2]; static CPPInstance *g_inst[2];
CPPClassTemplateParameter *CPPDeclaration::as_class_template_parameter() { for (int i = 0; i < 2; i++) if (this == g_decl[i]) return g_kind[i] == 0 ? g_ctp[i] : (CPPClassTemplateParameter *)0; return 0; }
CPPInstance *CPPDeclaration::as_instance() { for (int i = 0; i < 2; i++) if (this == g_decl[i]) return g_kind[i] == 1 ? g_inst[i] : (CPPInstance *)0; return 0; }

//@extract src/cppparser/cppPreprocessor.cxx CPPPreprocessor::CPPPreprocessor
//@extract src/cppparser/cppPreprocessor.cxx CPPPreprocessor::nested_parse_template_instantiation "subst1=@_saved_tokens\.push_back\(@vu_saved_push(@" "subst2=@(?m)^\s*assert\(scope != nullptr\);@@" "subst4=@new CPPSimpleType\(CPPSimpleType::T_unknown\)@vu_unknown_type()@" "subst5=@new CPPExpression\(0\)@vu_zero_expr()@" "subst3=@CPPToken\((START_\w+)\)@vu_token(\1)@"

static CPPPreprocessor g_pp_obj;
void h_template_argument_loop() {
  CPPTemplateScope *scope = (CPPTemplateScope *)vu_alloc(sizeof(CPPTemplateScope));
  size_t vin_nparams = nondet_size_t(); __CPROVER_assume(vin_nparams <= 2);
  scope->_parameters._parameters._n = vin_nparams; scope->_parameters._parameters._trunc = false;
  for (int i = 0; i < 2; i++) {
    g_decl[i] = (CPPDeclaration *)vu_alloc(8); g_kind[i] = nondet_int();
    g_ctp[i] = (CPPClassTemplateParameter *)vu_alloc(sizeof(CPPClassTemplateParameter)); g_ctp[i]->_packed = nondet_bool();
    g_inst[i] = (CPPInstance *)vu_alloc(sizeof(CPPInstance)); g_inst[i]->_storage_class = nondet_int();
    scope->_parameters._parameters._d[i] = g_decl[i];
  }
  g_left = nondet_int(); __CPROVER_assume(g_left >= 0 && g_left <= VU_TOK_MAX);
  int vin_state = nondet_int(); __CPROVER_assume(vin_state == CPPPreprocessor::S_normal || vin_state == CPPPreprocessor::S_nested);
  g_pp_obj._state = (CPPPreprocessor::State)vin_state;
  CPPTemplateParameterList *r = g_pp_obj.nested_parse_template_instantiation(scope);
  OBL(r != 0, "C15.template_arguments: the argument list is returned for every formal parameter list and every input, including an input that ends inside the list");
  OBL(g_pp_obj._state == vin_state, "C15.template_arguments: the lexer state of the enclosing parse is restored");
  VU_REACHED();
}
