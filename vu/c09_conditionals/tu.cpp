// VU c09_conditionals: conditional inclusion at directive level.  The real process_directive, skip_false_if_block,
// handle_if/ifdef/ifndef_directive run over a ghost sequence of directives and text items delivered by stubs of the
// character-level helpers; a reference evaluator of ISO C 6.10.1 decides which items a conforming preprocessor keeps.
// Bounded in sequence length and nesting depth (B mode).
#define private public
#define protected public
#include "vu_common.h"
//@headers src/dtoolbase src/dtoolutil src/cppparser
//@shadow filename.h dSearchPath.h
//@hdrsubst cpp*.h except=cppDeclaration.h "from=(?m)^\s*virtual CPP\w+ \*as_\w+\(\);\s*$" to=
//@hdrsubst cpp*.h "from=\bvirtual\s+" to=
// the recursive member std::vector<ExpansionNode> cannot be modelled by the array-based vstl vector (a class containing
// an array of itself); no kernel of this VU touches macro expansion nodes
//@hdrsubst cppManifest.h "from=std::vector<ExpansionNode> _nested;" "to=ExpansionNode *_nested_vu_unused;"
//@hdrsubst cppManifest.h "from=ExpansionNode\(std::vector<ExpansionNode> nested[^;]*;" to=
// default arguments that are class temporaries crash the front end (declaration of CPPManifest::expand, not a kernel)
//@hdrsubst cpp*.h "from= = (vector_string|Ignores|CPPManifest::Ignores|YYSTYPE)\(\)" to=
//@hdrinsert cppPreprocessor.h after="void handle_if_directive(const std::string &args, const YYLTYPE &loc);" text="void handle_if_directive__body(const std::string &args, const YYLTYPE &loc); void handle_ifdef_directive__body(const std::string &args, const YYLTYPE &loc); void handle_ifndef_directive__body(const std::string &args, const YYLTYPE &loc); void skip_false_if_block__body(bool consider_elifs);"
//@bison src/cppparser/cppBison.yxx cppBison.h
#include "dtoolbase.h"
#include "cppPreprocessor.h"
#include "cppBison.h"
#include <ctype.h>
#include "vstl_globals.h"


#include "cppExpression.h"
#include "cppExpressionParser.h"
#include "cppBisonDefs.h"
#include <stdint.h>
#include <limits.h>

#ifndef VU_SEQ
#define VU_SEQ 5
#endif
enum Kind { K_TEXT, K_OTHER, K_IF, K_IFDEF, K_IFNDEF, K_ELIF, K_ELIFDEF, K_ELIFNDEF, K_ELSE, K_ENDIF };
struct Item { int kind; int val; bool parse_ok; bool is_error; };
static Item vin_items[VU_SEQ]; static int g_i; static int g_sub;          // g_sub: 0 = before '#', 1 = inside a directive line
static bool g_delivered[VU_SEQ], g_effect[VU_SEQ], g_skipped[VU_SEQ];
static int g_cur;                                                         // index of the directive whose arguments were read last

// ---- character-level helpers (callee contracts in replace form): they deliver the ghost sequence
int CPPPreprocessor::get() {
  if (g_i >= VU_SEQ) return EOF;
  if (vin_items[g_i].kind == K_TEXT) { g_skipped[g_i] = true; g_i++; _start_of_line = false; return 'x'; }
  if (g_sub == 0) { g_sub = 1; _start_of_line = true; return '#'; }
  return 'd';
}
int CPPPreprocessor::skip_comment(int c) { return c; }
int CPPPreprocessor::skip_whitespace(int c) { return c; }
int CPPPreprocessor::get_preprocessor_command(int c, std::string &command) {
  __CPROVER_assert(g_i < VU_SEQ && vin_items[g_i].kind != K_TEXT && g_sub == 1, "C09.model: a directive line is being read");
  switch (vin_items[g_i].kind) {
  case K_IF: command = "if"; break; case K_IFDEF: command = "ifdef"; break; case K_IFNDEF: command = "ifndef"; break;
  case K_ELIF: command = "elif"; break; case K_ELIFDEF: command = "elifdef"; break; case K_ELIFNDEF: command = "elifndef"; break;
  case K_ELSE: command = "else"; break; case K_ENDIF: command = "endif"; break; default: command = "define"; break;
  }
  return ' ';
}
// ghost: which file is current.  Reading the arguments of a directive to the end of the line may reach the end of the file,
// which pops it: afterwards another file (the includer, or none) is current
static int g_file_tag; static bool vin_args_end_the_file;
int CPPPreprocessor::get_preprocessor_args(int c, std::string &args) { args = "A"; g_cur = g_i; g_i++; g_sub = 0; if (vin_args_end_the_file) g_file_tag++; return '\n'; }
CPPFile CPPPreprocessor::get_file() const { static CPPFile f; f._source = (CPPFile::Source)g_file_tag; return f; }
static int g_loc_file_tag = -1;
int CPPPreprocessor::get_line_number() const { return 1; }
int CPPPreprocessor::get_col_number() const { return 1; }
CPPFile::CPPFile(const Filename &filename, const Filename &filename_as_referenced, Source source) : _source(source), _pragma_once(false) {}
void CPPPreprocessor::warning(const std::string &message) const {}
void CPPPreprocessor::warning(const std::string &message, const YYLTYPE &loc) const {}
void CPPPreprocessor::error(const std::string &message) const {}
void CPPPreprocessor::error(const std::string &message, const YYLTYPE &loc) const {}
// directives with an effect: the stub records that the directive was acted upon
void CPPPreprocessor::handle_define_directive(const std::string &args, const YYLTYPE &loc) { g_effect[g_cur] = true; g_loc_file_tag = loc.file._source; }
void CPPPreprocessor::handle_undef_directive(const std::string &args, const YYLTYPE &loc) { g_effect[g_cur] = true; }
void CPPPreprocessor::handle_include_directive(const std::string &args, const YYLTYPE &loc) { g_effect[g_cur] = true; }
void CPPPreprocessor::handle_pragma_directive(const std::string &args, const YYLTYPE &loc) { g_effect[g_cur] = true; }
void CPPPreprocessor::handle_error_directive(const std::string &args, const YYLTYPE &loc) { g_effect[g_cur] = true; }
void CPPPreprocessor::handle_warning_directive(const std::string &args, const YYLTYPE &loc) { g_effect[g_cur] = true; }
// condition evaluation: the value of the controlling expression of the directive read last
bool CPPPreprocessor::is_manifest_defined(const std::string &manifest_name) const { return vin_items[g_cur].val != 0; }
void CPPPreprocessor::expand_manifests(std::string &expr, bool expand_undefined, const CPPManifest::Ignores &ignores) const {}
CPPScope *current_scope; CPPScope *global_scope;
static CPPExpression *g_expr;
// R18: `CPPExpressionParser ep(a, b);` -> a heap object set up by this stub (the constructor of the parser object and of
// its CPPPreprocessor base are callees outside the kernel; vector<CPPToken> members are not default-constructible in the model)
static CPPExpressionParser *vu_new_expression_parser(CPPScope *c, CPPScope *g) {
  CPPExpressionParser *ep = VU_NEW(CPPExpressionParser); ep->_current_scope = c; ep->_global_scope = g; ep->_expr = 0; return ep;
}
bool CPPExpressionParser::parse_expr(const std::string &expr, const CPPPreprocessor &filepos) { _expr = g_expr; return vin_items[g_cur].parse_ok; }
CPPExpression::Result CPPExpression::evaluate() const {
  CPPExpression::Result r;
  if (vin_items[g_cur].is_error) { r._type = RT_error; r._u._integer = 0; } else { r._type = RT_integer; r._u._integer = vin_items[g_cur].val; }
  return r;
}
void CPPDeclaration::output(std::ostream &out, int indent_level, CPPScope *scope, bool complete) const {}     // diagnostics text is not modelled
//@extract src/cppparser/cppExpression.cxx CPPExpression::Result::Result ordinal=0
//@extract src/cppparser/cppExpression.cxx CPPExpression::Result::as_integer

//@extract src/cppparser/cppPreprocessor.cxx CPPPreprocessor::process_directive r15
//@extract src/cppparser/cppPreprocessor.cxx CPPPreprocessor::handle_ifdef_directive rename=__body
//@extract src/cppparser/cppPreprocessor.cxx CPPPreprocessor::handle_ifndef_directive rename=__body
// R17: the default argument removed from the copied header (front-end crash) is passed explicitly
static CPPManifest::Ignores *vu_no_ignores() { return VU_NEW(CPPManifest::Ignores); }
//@extract src/cppparser/cppPreprocessor.cxx CPPPreprocessor::handle_if_directive rename=__body r15 "subst1=@expand_manifests\(expr, true\)@expand_manifests(expr, true, *vu_no_ignores())@" "subst2=@CPPExpressionParser ep\(current_scope, global_scope\);@CPPExpressionParser &ep = *vu_new_expression_parser(current_scope, global_scope);@"
//@extract src/cppparser/cppPreprocessor.cxx CPPPreprocessor::skip_false_if_block rename=__body

// ---- the four mutually recursive kernels under their own names: either the real body (whole-sequence lemma) or, for the
// one-step contracts, a stub that records the call (callee contract in replace form: "handles directive g_cur")
static bool g_onestep; static int g_called_kind, g_called_item; static bool g_skip_called, g_skip_arg;
void CPPPreprocessor::handle_if_directive(const std::string &args, const YYLTYPE &loc) { if (g_onestep) { g_called_kind = K_IF; g_called_item = g_cur; } else handle_if_directive__body(args, loc); }
void CPPPreprocessor::handle_ifdef_directive(const std::string &args, const YYLTYPE &loc) { if (g_onestep) { g_called_kind = K_IFDEF; g_called_item = g_cur; } else handle_ifdef_directive__body(args, loc); }
void CPPPreprocessor::handle_ifndef_directive(const std::string &args, const YYLTYPE &loc) { if (g_onestep) { g_called_kind = K_IFNDEF; g_called_item = g_cur; } else handle_ifndef_directive__body(args, loc); }
void CPPPreprocessor::skip_false_if_block(bool consider_elifs) { if (g_onestep) { g_skip_called = true; g_skip_arg = consider_elifs; } else skip_false_if_block__body(consider_elifs); }

// ---- reference semantics (ISO C 6.10.1): which items does a conforming preprocessor keep?
static bool cond_of(const Item &it) {
  if (it.kind == K_IF || it.kind == K_ELIF) return it.parse_ok && !it.is_error && it.val != 0;
  if (it.kind == K_IFDEF || it.kind == K_ELIFDEF) return it.val != 0;
  return it.val == 0;                                  // ifndef / elifndef
}
enum { MAXD = 3 };
static bool g_keep[VU_SEQ];
static bool spec(bool *well_nested) {
  bool active[MAXD + 1], taken[MAXD + 1], seen_else[MAXD + 1]; int d = 0; active[0] = true; taken[0] = true; seen_else[0] = false;
  *well_nested = true;
  for (int k = 0; k < VU_SEQ; k++) {
    const Item &it = vin_items[k];
    g_keep[k] = false;
    switch (it.kind) {
    case K_TEXT: case K_OTHER: g_keep[k] = active[d]; break;
    case K_IF: case K_IFDEF: case K_IFNDEF:
      if (d >= MAXD) { *well_nested = false; return false; }
      d++; seen_else[d] = false;
      if (active[d - 1]) { bool c = cond_of(it); active[d] = c; taken[d] = c; } else { active[d] = false; taken[d] = true; }
      break;
    case K_ELIF: case K_ELIFDEF: case K_ELIFNDEF:
      if (d == 0 || seen_else[d]) { *well_nested = false; return false; }
      if (!taken[d] && cond_of(it)) { active[d] = true; taken[d] = true; } else active[d] = false;
      break;
    case K_ELSE:
      if (d == 0 || seen_else[d]) { *well_nested = false; return false; }
      seen_else[d] = true; active[d] = !taken[d]; taken[d] = true;
      break;
    case K_ENDIF:
      if (d == 0) { *well_nested = false; return false; }
      d--;
      break;
    }
  }
  if (d != 0) *well_nested = false;
  return true;
}

CPPDeclaration::CPPDeclaration(const CPPFile &file, CPPAttributeList attr) : _file(file) { _vis = V_unknown; _template_scope = 0; _leading_comment = 0; }
//@extract src/cppparser/cppExpression.cxx CPPExpression::CPPExpression "sig=\\bCPPExpression\\(int value\\)"
static CPPPreprocessor *g_ppp;
#define g_pp (*g_ppp)
static CPPExpression g_expr_obj(0);
void h_conditional_groups() {
  g_onestep = false;
  for (int k = 0; k < VU_SEQ; k++) {
    vin_items[k].kind = nondet_int(); __CPROVER_assume(vin_items[k].kind >= K_TEXT && vin_items[k].kind <= K_ENDIF);
    vin_items[k].val = nondet_int(); vin_items[k].parse_ok = nondet_bool(); vin_items[k].is_error = nondet_bool();
    g_delivered[k] = g_effect[k] = g_skipped[k] = false;
  }
  bool wn; spec(&wn);
  __CPROVER_assume(wn);                                // the property speaks of well-nested arrangements
  g_ppp = VU_NEW(CPPPreprocessor);
  g_expr = &g_expr_obj; g_i = 0; g_sub = 0; g_pp._save_comments = true; g_pp._start_of_line = true;
  // the token loop: text reaches the parser, a '#' at the start of a line goes to process_directive
  for (int step = 0; step < VU_SEQ + 1; step++) {
    if (g_i >= VU_SEQ) break;
    if (vin_items[g_i].kind == K_TEXT) { g_delivered[g_i] = true; g_i++; }
    else { g_sub = 1; g_pp.process_directive('#'); }
  }
  for (int k = 0; k < VU_SEQ; k++) {
    if (vin_items[k].kind == K_TEXT) OBL(g_delivered[k] == g_keep[k], "C09.conditionals: the parser sees exactly the text of the groups a conforming preprocessor keeps");
    if (vin_items[k].kind == K_OTHER) OBL(g_effect[k] == g_keep[k], "C09.conditionals: a directive is acted upon exactly when its group is kept (skipped groups have no effect)");
  }
  OBL(g_pp._save_comments, "C09.conditionals: comment saving is switched on again after skipping");
  VU_REACHED();
}

static void any_sequence() {
  for (int k = 0; k < VU_SEQ; k++) {
    vin_items[k].kind = nondet_int(); __CPROVER_assume(vin_items[k].kind >= K_TEXT && vin_items[k].kind <= K_ENDIF);
    vin_items[k].val = nondet_int(); vin_items[k].parse_ok = nondet_bool(); vin_items[k].is_error = nondet_bool();
    g_delivered[k] = g_effect[k] = g_skipped[k] = false;
  }
  g_ppp = VU_NEW(CPPPreprocessor); g_expr = &g_expr_obj; g_i = 0; g_sub = 0; g_pp._save_comments = true; g_pp._start_of_line = true;
  g_called_kind = -1; g_called_item = -1; g_skip_called = false;
}
static bool is_opener(int k) { return k == K_IF || k == K_IFDEF || k == K_IFNDEF; }
static bool is_elif(int k) { return k == K_ELIF || k == K_ELIFDEF || k == K_ELIFNDEF; }

// ---- skip_false_if_block, one call, any sequence: stops at the matching #endif, or (if asked) at the first #else/#elif*
// of its own level, which it hands to the right handler; nothing in between has an effect
void h_skip_false_if_block() {
  any_sequence();
  bool vin_consider = nondet_bool();
  g_onestep = true;
  // where a conforming preprocessor stops skipping
  int stop = VU_SEQ, depth = 0;
  for (int k = 0; k < VU_SEQ; k++) if (stop == VU_SEQ) {
    int kd = vin_items[k].kind;
    if (is_opener(kd)) depth++;
    else if (kd == K_ENDIF) { if (depth == 0) stop = k; else depth--; }
    else if ((kd == K_ELSE || is_elif(kd)) && depth == 0 && vin_consider) stop = k;
  }
  g_pp.skip_false_if_block__body(vin_consider);
  OBL(g_pp._save_comments, "C09.skip_false_if_block: comment saving is switched on again");
  OBL(g_i == (stop == VU_SEQ ? VU_SEQ : stop + 1), "C09.skip_false_if_block: skipping ends exactly behind the matching #endif, or behind the first #else/#elif* of the same level when those are considered");
  for (int k = 0; k < VU_SEQ; k++) OBL(!g_effect[k], "C09.skip_false_if_block: no directive of a skipped group is acted upon");
  if (stop < VU_SEQ && is_elif(vin_items[stop].kind)) {
    int want = vin_items[stop].kind == K_ELIF ? K_IF : vin_items[stop].kind == K_ELIFDEF ? K_IFDEF : K_IFNDEF;
    OBL(g_called_kind == want && g_called_item == stop, "C09.skip_false_if_block: an #elif/#elifdef/#elifndef that ends the skipping is evaluated by the matching handler");
  } else OBL(g_called_kind == -1, "C09.skip_false_if_block: no condition of a nested or later group is evaluated");
  VU_REACHED();
}
// ---- the three condition handlers, one step: true -> keep reading, false -> skip the group (considering #elif/#else)
static void handler_step(int kind) {
  any_sequence();
  vin_items[0].kind = kind; g_cur = 0; g_i = 1;
  g_onestep = true;
  YYLTYPE loc; std::string args("A");
  if (kind == K_IF) g_pp.handle_if_directive__body(args, loc);
  else if (kind == K_IFDEF) g_pp.handle_ifdef_directive__body(args, loc);
  else g_pp.handle_ifndef_directive__body(args, loc);
  bool c = cond_of(vin_items[0]);
  OBL(g_skip_called == !c, "C09.handle_if*: a true condition (any non-zero value) keeps the group, a false, unparsable or unevaluable one skips it");
  if (!c) OBL(g_skip_arg == true, "C09.handle_if*: after a false condition the #elif/#else groups of the same conditional are considered");
  VU_REACHED();
}
void h_handle_if_directive() { handler_step(K_IF); }
void h_handle_ifdef_directive() { handler_step(K_IFDEF); }
void h_handle_ifndef_directive() { handler_step(K_IFNDEF); }
// ---- process_directive, one step (reached only in a group that is being kept)
void h_process_directive() {
  any_sequence();
  __CPROVER_assume(vin_items[0].kind != K_TEXT);
  g_onestep = true; g_sub = 1;
  g_file_tag = 1; vin_args_end_the_file = nondet_bool(); g_loc_file_tag = -1;
  g_pp.process_directive('#');
  int kd = vin_items[0].kind;
  OBL(g_i == 1, "C09.process_directive: exactly the directive line is consumed");
  if (is_opener(kd)) OBL(g_called_kind == kd && g_called_item == 0 && !g_skip_called && !g_effect[0], "C09.process_directive: #if/#ifdef/#ifndef go to their handler");
  else if (kd == K_ELSE || is_elif(kd)) OBL(g_skip_called && g_skip_arg == false && g_called_kind == -1 && !g_effect[0], "C09.process_directive: #else/#elif* reached in a kept group skip to the #endif without evaluating anything (at most one group per conditional)");
  else if (kd == K_ENDIF) OBL(!g_skip_called && g_called_kind == -1 && !g_effect[0], "C09.process_directive: #endif has no effect");
  else { OBL(g_effect[0] && !g_skip_called && g_called_kind == -1, "C09.process_directive: other directives are acted upon");
    OBL(g_loc_file_tag == 1, "C09.process_directive: a directive is attributed to the file it stands in (the file current when its # was read), also when it is the last line of that file (a #define ending a system header stays the system header's)"); }
  VU_REACHED();
}
