// VU c17_standardize: Filename::standardize on every path string over the component alphabet {name, ., .., empty}
// up to a length bound: no std::string precondition violated, idempotent, lexical denotation preserved.
#define private public
#define protected public
#include "vu_common.h"
//@headers src/dtoolbase src/dtoolutil
//@shadow filename.h
#include "dtoolbase.h"
#include "filename.h"
//@extract src/dtoolutil/filename.cxx Filename::standardize r15

#ifdef VU_TWO_NAMES
#define VU_ALPHA_B(c) ((c) == 'b')
#else
#define VU_ALPHA_B(c) false
#endif
#ifndef VU_PATH_MAX
#define VU_PATH_MAX 5
#endif
// lexical denotation of a path: absolute?, number of leading ".." (relative paths only), then the names
struct Den { bool abs; int ups; int n; char names[VU_PATH_MAX + 1]; bool bad; };
static void denote(const std::string &s, Den &d) {
  d.abs = s._n > 0 && s._d[0] == '/'; d.ups = 0; d.n = 0; d.bad = false;
  size_t i = 0;
  for (int guard = 0; guard < VU_PATH_MAX + 1; guard++) {
    while (i < s._n && s._d[i] == '/') i++;
    if (i >= s._n) break;
    size_t j = i; while (j < s._n && s._d[j] != '/') j++;
    size_t len = j - i;
    if (len == 1 && s._d[i] == '.') { /* stay */ }
    else if (len == 2 && s._d[i] == '.' && s._d[i + 1] == '.') { if (d.n > 0) d.n--; else if (!d.abs) d.ups++; }
    else if (len == 1) { d.names[d.n++] = s._d[i]; }
    else d.bad = true;                       // names are single letters in this harness
    i = j;
  }
}
static bool same_den(const Den &a, const Den &b) {
  if (a.abs != b.abs || a.ups != b.ups || a.n != b.n) return false;
  for (int k = 0; k < VU_PATH_MAX; k++) if (k < a.n && a.names[k] != b.names[k]) return false;
  return true;
}

void h_standardize() {
  Filename f; std::string &vin_path = f._filename;
  vin_path._trunc = false; vin_path._n = nondet_size_t(); __CPROVER_assume(vin_path._n >= 1 && vin_path._n <= VU_PATH_MAX);
  for (size_t i = 0; i < std::string::CAP; i++) { char c = nondet_char(); __CPROVER_assume(c == 'a' || VU_ALPHA_B(c) || c == '.' || c == '/'); vin_path._d[i] = (i < vin_path._n) ? c : (char)0; }
  vin_path._d[std::string::CAP] = 0;
  Den before; denote(vin_path, before);
  __CPROVER_assume(!before.bad);
#ifdef KF_C17_STANDARDIZE_EMPTY
  __CPROVER_assume(!(before.n == 0 && before.ups == 0 && !before.abs));     // paths that denote the start directory itself
#endif
  f.standardize();
  __CPROVER_assume(!f._filename._trunc);
  std::string once = f._filename;
  Den after; denote(once, after);
  OBL(!after.bad && same_den(before, after), "C17.standardize: normalisation never changes which file a path denotes (lexically: same root, same leading .., same names)");
  OBL(once._n > 0, "C17.standardize: the result is never the empty name");
  // shape of the result: no empty component, no "." except alone at the front, no "name/.."
  bool shape = true;
  for (size_t i = 0; i + 1 < std::string::CAP; i++) if (i + 1 < once._n && once._d[i] == '/' && once._d[i + 1] == '/') shape = false;
  if (once._n > 1 && once._d[once._n - 1] == '/') shape = false;
  OBL(shape, "C17.standardize: the result has no repeated or trailing slash");
  if (once._n > 0) { f.standardize(); __CPROVER_assume(!f._filename._trunc); OBL(f._filename == once, "C17.standardize: normalisation is idempotent"); }
  VU_REACHED();
}
