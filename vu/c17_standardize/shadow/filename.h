#ifndef FILENAME_H
#define FILENAME_H
#include "dtoolbase.h"
#include "vector_string.h"
// VU skeleton of Filename for standardize(): the path text only (the real class is not parsable by CBMC's C++ front end:
// conversion operators, rvalue references).  Assignment from a string sets the text, as the real operator= does.
class Filename {
public:
  Filename() {}
  Filename(const std::string &s) : _filename(s) {}
  Filename &operator=(const std::string &s) { _filename = s; return *this; }
  void standardize();
  std::string _filename;
};
#endif
