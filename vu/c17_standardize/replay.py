"""Native replay for VU c17_standardize: the real Filename::standardize (libdtoolutil built from the working tree)."""
import os, sys
sys.path.insert(0, os.path.join(os.path.dirname(os.path.realpath(__file__)), "..", "..", "lib"))
import native

DRIVER = r'''
#include "filename.h"
#include <iostream>
int main(int argc, char **argv) {
  Filename f(argv[1]); f.standardize();
  std::string once = f.get_fullpath();
  std::cout << "standardize(\"" << argv[1] << "\") = \"" << once << "\"\n";
  if (once.empty()) { std::cout << "EMPTY NAME\n"; return 1; }
  Filename g(once); g.standardize();
  if (g.get_fullpath() != once) { std::cout << "NOT IDEMPOTENT: \"" << g.get_fullpath() << "\"\n"; return 1; }
  return 0;
}
'''


def replay(ctx):
    vin = ctx["vin"]
    try:
        n = int(str(vin.get("vin_path._n", "0")).rstrip("ul"))
    except Exception:
        n = 0
    s = ""
    for i in range(n):
        b = vin.get("vin_path._d[%dl]#bin" % i)
        s += chr(int(b, 2)) if b else "a"
    if not s:
        s = "a/.."
    nb = native.NativeBuild(targets=("interrogatedb",))
    try:
        if not nb.build():
            return {"reproduced": False, "error": "native build failed", "log": nb.log[-1500:]}
        exe = nb.compile_driver(DRIVER)
        if not exe:
            return {"reproduced": False, "error": "driver did not compile", "log": nb.log[-1500:]}
        rc, out = native.sh(["timeout", "20", exe, s])
        return {"reproduced": rc != 0, "input": s, "cmd": "Filename(%r).standardize()" % s, "observed": native.describe_exit(rc), "output": out[-300:]}
    finally:
        nb.close()
