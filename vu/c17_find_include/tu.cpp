// VU c17_find_include: CPPPreprocessor::find_include against the stated lookup rules.  Paths are abstract identities, the
// file system is an uninterpreted oracle (skeleton Filename); the search path is a concrete vector (B mode in its length).
#define private public
#define protected public
#include "vu_common.h"
//@headers src/dtoolbase src/dtoolutil src/cppparser
//@shadow filename.h dSearchPath.h
//@hdrsubst cpp*.h except=cppDeclaration.h "from=(?m)^\s*virtual CPP\w+ \*as_\w+\(\);\s*$" to=
//@hdrsubst cpp*.h "from=\bvirtual\s+" to=
// the recursive member std::vector<ExpansionNode> cannot be modelled by the array-based vstl vector (a class containing
// an array of itself); no kernel of this VU touches macro expansion nodes
//@hdrsubst cppManifest.h "from=std::vector<ExpansionNode> _nested;" "to=ExpansionNode *_nested_vu_unused;"
//@hdrsubst cppManifest.h "from=ExpansionNode\(std::vector<ExpansionNode> nested[^;]*;" to=
// default arguments that are class temporaries crash the front end (declaration of CPPManifest::expand, not a kernel)
//@hdrsubst cpp*.h "from= = (vector_string|Ignores|CPPManifest::Ignores|YYSTYPE)\(\)" to=
// R20: the member std::vector<CPPToken> (CPPToken has no default constructor; the array-based vector needs one) is not
// touched by this kernel and becomes a pointer, so that a TYPED CPPPreprocessor object can be built by the real constructor
//@hdrsubst cppPreprocessor.h "from=std::vector<CPPToken> _saved_tokens;" "to=CPPToken *_saved_tokens_vu_unused;"
//@bison src/cppparser/cppBison.yxx cppBison.h
#include "dtoolbase.h"
#include "cppPreprocessor.h"
#include "cppBison.h"
#include <ctype.h>
#include "vstl_globals.h"


static long g_includer;           // identity of the including file
CPPFile CPPPreprocessor::get_file() const { CPPFile f; f._filename._id = g_includer; return f; }
CPPFile::CPPFile(const Filename &filename, const Filename &filename_as_referenced, Source source) : _source(source), _pragma_once(false) {}
// callee contract: Filename::resolve_filename(path) finds the file in the first directory of the path that has it
static bool g_resolve_hit; static long g_resolved;
bool Filename::resolve_filename(const DSearchPath &searchpath) { if (g_resolve_hit) { _id = g_resolved; return true; } return false; }

// R19: a member call on a member of a temporary (`get_file()._filename.get_dirname()`) is not accepted by the front end:
// the expression is replaced by a stub with the same meaning (directory part of the including file)
static long g_includer_ref;       // identity of the including file as it was referenced
static Filename vu_file_dirname_filename() { Filename d; d._id = __CPROVER_uninterpreted_path_dirname(g_includer); return d; }
static Filename vu_file_dirname_filename_as_referenced() { Filename d; d._id = __CPROVER_uninterpreted_path_dirname(g_includer_ref); return d; }
//@extract src/cppparser/cppPreprocessor.cxx CPPPreprocessor::CPPPreprocessor
//@extract src/cppparser/cppPreprocessor.cxx CPPPreprocessor::find_include "subst1=@(?:get_file\(\)|includer|file|this_file)\._(filename\w*)\.get_dirname\(\)@vu_file_dirname_\1()@"

#define JOIN(d, b) __CPROVER_uninterpreted_path_join((d), (b))
#define EXISTS(p) __CPROVER_uninterpreted_path_exists(p)
static CPPPreprocessor g_pp_obj;
void h_find_include() {
  CPPPreprocessor *pp = &g_pp_obj;
  long vin_file = nondet_long(); g_includer = nondet_long(); g_includer_ref = nondet_long(); bool vin_angle = nondet_bool();
  g_resolve_hit = nondet_bool(); g_resolved = nondet_long();
  // the quote search path: up to VSTL_VEC_CAP directories with their kinds
  size_t n = nondet_size_t(); __CPROVER_assume(n <= std::vector<Filename>::CAP);
  pp->_quote_include_path._directories._n = n; pp->_quote_include_path._directories._trunc = false;
  pp->_quote_include_kind._n = n; pp->_quote_include_kind._trunc = false;
  for (size_t i = 0; i < std::vector<Filename>::CAP; i++) {
    pp->_quote_include_path._directories._d[i]._id = nondet_long();
    int k = nondet_int(); __CPROVER_assume(k == CPPFile::S_alternate || k == CPPFile::S_system); pp->_quote_include_kind._d[i] = (CPPFile::Source)k;
  }
  Filename f; f._id = vin_file;
  CPPFile::Source source = CPPFile::S_none;
  bool r = pp->find_include(f, vin_angle, source);
  long in_includer_dir = JOIN(__CPROVER_uninterpreted_path_dirname(g_includer), vin_file);
  if (vin_angle) {
    OBL(r == g_resolve_hit, "C17.find_include: #include <x> is found exactly when a system (-S) directory has it");
    if (r) OBL(source == CPPFile::S_system && f._id == g_resolved, "C17.find_include: #include <x> is resolved through the -S directories only and is never the user's own file");
    else OBL(f._id == vin_file, "C17.find_include: a file that is not found leaves the name unchanged");
  } else if (EXISTS(vin_file)) {
    OBL(r && source == CPPFile::S_local && f._id == vin_file, "C17.find_include: #include \"x\" tries the working directory first; a file found there is the user's own (S_local)");
  } else if (EXISTS(in_includer_dir)) {
    OBL(r && source == CPPFile::S_alternate && f._id == in_includer_dir, "C17.find_include: then the including file's directory; a file found there is not the user's own (S_alternate)");
  } else {
    // first directory of the path that has the file
    size_t first = n; for (size_t i = 0; i < std::vector<Filename>::CAP; i++) if (i < n && first == n && EXISTS(JOIN(pp->_quote_include_path._directories._d[i]._id, vin_file))) first = i;
    if (first < n) OBL(r && f._id == JOIN(pp->_quote_include_path._directories._d[first]._id, vin_file) && source == pp->_quote_include_kind._d[first],
                       "C17.find_include: then the -I/-S directories in command-line order: the first one that has the file wins and gives its kind");
    else OBL(!r && f._id == vin_file, "C17.find_include: a file found nowhere is reported as not found and the name is unchanged");
  }
  if (r && !vin_angle) OBL(source != CPPFile::S_local || EXISTS(vin_file), "C04.find_include: a file is the user's own only when it is found in the working directory");
  VU_REACHED();
}
