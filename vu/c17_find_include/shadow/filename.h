#ifndef FILENAME_H
#define FILENAME_H
#include "dtoolbase.h"
// VU skeleton of Filename for find_include: a path is an abstract identity; joining, taking the directory part and the
// file system are uninterpreted functions (same arguments, same answer).  The real class is not parsable by CBMC.
class DSearchPath;
long __CPROVER_uninterpreted_path_join(long dir, long base);
long __CPROVER_uninterpreted_path_dirname(long path);
bool __CPROVER_uninterpreted_path_exists(long path);
class Filename {
public:
  Filename() : _id(0) {}
  Filename(const std::string &s) : _id(0) {}
  Filename(const char *s) : _id(0) {}
  explicit Filename(const Filename &dirname, const Filename &basename) : _id(__CPROVER_uninterpreted_path_join(dirname._id, basename._id)) {}
  long _id;
  std::string _filename;
  Filename get_dirname() const { Filename d; d._id = __CPROVER_uninterpreted_path_dirname(_id); return d; }
  Filename get_dirname() { Filename d; d._id = __CPROVER_uninterpreted_path_dirname(_id); return d; }   // (the front end does not bind a temporary to the const overload)
  bool exists() const { return __CPROVER_uninterpreted_path_exists(_id); }
  bool resolve_filename(const DSearchPath &searchpath);
  bool empty() const { return _id == 0; }
  bool operator==(const Filename &o) const { return _id == o._id; }
  bool operator<(const Filename &o) const { return _id < o._id; }
};
inline std::ostream &operator<<(std::ostream &out, const Filename &n) { return out; }
#endif
