// Environment of the output tails of main() in interrogate.cxx / interrogate_module.cxx (skeletons of the free variables).
#ifndef C19_ENV_H
#define C19_ENV_H
#include "vu_common.h"
#include <string>
#include <iostream>
#include "vstl_globals.h"
#define nout (std::cerr)
// callee contract of Filename::open_write: opening may fail (missing directory, read-only target, target is a
// directory); then the stream is in the failed state and the requested output is lost
class Filename {
public:
  bool _empty;
  bool empty() const { return _empty; }
  bool open_write(std::ofstream &stream) const {
    stream.clear();
    if (nondet_bool()) { stream.setstate(std::ios::failbit); std::vstl_output_lost = true; return false; }
    return true;
  }
  std::string get_fullpath_wo_extension() const { return std::string(); }
  std::string get_basename_wo_extension() const { return std::string(); }
  bool unlink() const { return true; }
};
inline std::ostream &operator<<(std::ostream &out, const Filename &n) { return out << "f"; }
struct InterrogateModuleDef;
// the writers: they insert into the stream they are given (any insertion may fail)
class InterrogateBuilder { public: void write_code(std::ostream &out, std::ostream *inc, InterrogateModuleDef *def) { out << "code"; if (inc) *inc << "h"; } };
class InterrogateDatabase { public: static InterrogateDatabase *get_ptr() { static InterrogateDatabase db; return &db; }
  void write(std::ostream &out, InterrogateModuleDef *def) const { out << 3 << "\n"; }
  void write_text(std::ostream &out) const { out << "text"; } };
#endif
