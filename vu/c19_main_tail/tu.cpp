// VU c19_main_tail: the output tails of main() of interrogate and interrogate_module, extracted as blocks (R5).
// std::ofstream is a model in which opening, every insertion and every flush may fail (sticky failure).
#include "env.h"
namespace igate {
Filename output_code_filename, output_include_filename, output_data_filename, output_text_filename;
bool build_python_native; std::string command_line; const char *interrogate_preamble_python_native_h = "p";
InterrogateBuilder builder; InterrogateModuleDef *def; std::ofstream *the_output_include;
//@block src/interrogate/interrogate.cxx "start=  int status = 0;" "end=  return status;" "head=int vu_main_tail()" r3
}
namespace imodule {
Filename output_code_filename; bool build_python_wrappers, build_python_native_wrappers; const char *interrogate_preamble_python_native = "p";
static bool g_error_flag;
bool interrogate_error_flag() { return g_error_flag; }
int write_python_table(std::ostream &out) { out << "t"; return 1; }
void write_python_table_native(std::ostream &out) { out << "n"; }
//@block src/interrogate/interrogate_module.cxx "start=  // Now output the table." "end=  return (0);" "head=int vu_main_tail()" r3
}
extern "C" void exit(int status) { __CPROVER_assume(false); }     // a non-zero exit is a reported failure: the path ends

void h_interrogate_tail() {
  igate::output_code_filename._empty = nondet_bool(); igate::output_data_filename._empty = nondet_bool(); igate::output_text_filename._empty = nondet_bool(); igate::output_include_filename._empty = true;
  igate::build_python_native = nondet_bool(); igate::the_output_include = 0;
  std::vstl_output_lost = false;
  int status = igate::vu_main_tail();
  OBL(!std::vstl_output_lost || status != 0, "C19.interrogate: if a requested output (-oc, -od, text) cannot be opened or a write to it fails at any point, the exit status is non-zero");
  VU_REACHED();
}
void h_interrogate_module_tail() {
  imodule::output_code_filename._empty = nondet_bool(); imodule::build_python_wrappers = nondet_bool(); imodule::build_python_native_wrappers = nondet_bool();
  imodule::g_error_flag = false;
  std::vstl_output_lost = false;
  int status = imodule::vu_main_tail();
  OBL(!std::vstl_output_lost || status != 0, "C19.interrogate_module: if the -oc output cannot be opened or a write to it fails at any point, the exit status is non-zero");
  VU_REACHED();
}
