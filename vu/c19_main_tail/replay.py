"""Native replay for VU c19_main_tail: the tools built from the working tree write to /dev/full (every write fails with
ENOSPC) and to a path in a missing directory; a zero exit status reproduces the violation."""
import os, sys, tempfile, shutil
sys.path.insert(0, os.path.join(os.path.dirname(os.path.realpath(__file__)), "..", "..", "lib"))
import native

HDR = "class Foo {\npublic:\n  int get() const;\n  void set(int v);\n};\nint free_function(int a, double b);\n"


def replay(ctx):
    nb = native.NativeBuild(targets=("interrogate", "interrogate_module"))
    try:
        if not nb.build():
            return {"reproduced": False, "error": "native build failed", "log": nb.log[-1500:]}
        d = tempfile.mkdtemp(prefix="verif-replay-", dir="/var/tmp")
        open(os.path.join(d, "a.h"), "w").write(HDR)
        repo = ctx["repo"]
        runs = []
        common = ["-module", "m", "-library", "l", "-fnames", "-string", "-promiscuous", "-S" + repo + "/parser-inc", "a.h"]
        if ctx["entry"] == "h_interrogate_tail":
            cases = [("-oc ok.cxx -od /dev/full", ["-oc", "ok.cxx", "-od", "/dev/full", "-c"]),
                     ("-oc /dev/full -od ok.in", ["-oc", "/dev/full", "-od", "ok.in", "-c"]),
                     ("-oc ok.cxx -od missing_dir/x.in", ["-oc", "ok.cxx", "-od", "missing_dir/x.in", "-c"])]
            for name, args in cases:
                rc, out = native.sh(["timeout", "60", nb.bin("interrogate")] + args + common, cwd=d)
                runs.append({"case": name, "exit": rc, "tail": out[-200:]})
        else:
            rc, out = native.sh(["timeout", "60", nb.bin("interrogate"), "-oc", "ok.cxx", "-od", "ok.in", "-python-native"] + common, cwd=d)
            for name, args in [("-oc /dev/full", ["-oc", "/dev/full"]), ("-oc missing_dir/m.cxx", ["-oc", "missing_dir/m.cxx"])]:
                rc, out = native.sh(["timeout", "60", nb.bin("interrogate_module")] + args + ["-module", "m", "-library", "l", "-python-native", "ok.in"], cwd=d)
                runs.append({"case": name, "exit": rc, "tail": out[-200:]})
        shutil.rmtree(d, ignore_errors=True)
        bad = [r for r in runs if r["exit"] == 0]
        return {"reproduced": bool(bad), "cmd": "%s with an output that cannot be written" % ctx["entry"], "observed": "exit 0 for: " + ", ".join(r["case"] for r in bad) if bad else "all non-zero", "runs": runs}
    finally:
        nb.close()
