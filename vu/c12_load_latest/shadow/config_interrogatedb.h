#ifndef CONFIG_INTERROGATEDB_H
#define CONFIG_INTERROGATEDB_H
#include "dtoolbase.h"
// VU skeletons of the two dtoolutil classes load_latest uses (the real headers are not parsable by CBMC's front end):
// a file name is its text; the search path and the file system are callee contracts defined in the harness
class Filename {
public:
  Filename() {}
  Filename(const char *s) : _filename(s) {}
  Filename(const std::string &s) : _filename(s) {}
  std::string _filename;
  bool empty() const { return _filename.empty(); }
  char operator[](size_t n) const { return _filename[n]; }
  void set_text() {}
  bool open_read(std::ifstream &stream) const;
};
inline std::ostream &operator<<(std::ostream &out, const Filename &n) { return out; }
class DSearchPath { public: Filename find_file(const Filename &filename) const; };
inline std::ostream &operator<<(std::ostream &out, const DSearchPath &p) { return out; }
extern DSearchPath interrogatedb_path;
#endif
