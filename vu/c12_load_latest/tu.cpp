// VU c12_load_latest: the header gate of InterrogateDatabase::load_latest (file identifier, major/minor version) for one
// pending request: a newer or different major version is reported and never read; an identifier mismatch is reported.
#define private public
#define protected public
#include "vu_common.h"
//@headers src/dtoolbase src/interrogatedb
//@shadow config_interrogatedb.h indent.h
//@truncate interrogateDatabase.I from=src/interrogatedb/interrogateDatabase.I anchor="lookup_type_by_name(const"
#include "interrogateDatabase.h"
#include "config_interrogatedb.h"
#include "vstl_globals.h"

int InterrogateDatabase::_file_major_version = 0;
int InterrogateDatabase::_file_minor_version = 0;
int InterrogateDatabase::_current_major_version = 3;
int InterrogateDatabase::_current_minor_version = 3;
DSearchPath interrogatedb_path;
std::string InterrogateComponent::_empty_string;

//@extract src/interrogatedb/interrogateType.cxx InterrogateType::InterrogateType ordinal=0
//@extract src/interrogatedb/interrogateFunction.cxx InterrogateFunction::InterrogateFunction ordinal=0
//@extract src/interrogatedb/interrogateDatabase.cxx InterrogateDatabase::InterrogateDatabase
//@extract src/interrogatedb/interrogateDatabase.cxx InterrogateDatabase::set_error_flag
//@extract src/interrogatedb/interrogateDatabase.cxx InterrogateDatabase::load_latest

// ---- callees outside the kernel (contracts in replace form)
static std::ostream g_file;                   // what the database file contains (token level)
static bool vin_found, vin_readable;
Filename DSearchPath::find_file(const Filename &filename) const { return vin_found ? Filename("/p") : Filename(); }
bool Filename::open_read(std::ifstream &stream) const { if (!vin_readable) return false; stream._from(g_file); return true; }
static int g_read_calls; static bool vin_read_ok; static int g_minor_at_read, g_major_at_read;
bool InterrogateDatabase::read(std::istream &in, InterrogateModuleDef *def) {
  g_read_calls++; g_minor_at_read = _file_minor_version; g_major_at_read = _file_major_version; return vin_read_ok;
}

static InterrogateDatabase g_db; static InterrogateModuleDef g_def;
void h_load_latest() {
  int vin_id = nondet_int(), vin_major = nondet_int(), vin_minor = nondet_int(), vin_def_id = nondet_int();
  int vin_stale_major = nondet_int(), vin_stale_minor = nondet_int();          // whatever an earlier load left behind
  vin_found = nondet_bool(); vin_readable = nondet_bool(); vin_read_ok = nondet_bool();
  g_file << vin_id << "\n" << vin_major << " " << vin_minor << "\n";
  InterrogateDatabase::_file_major_version = vin_stale_major; InterrogateDatabase::_file_minor_version = vin_stale_minor;
  g_def.database_filename = nondet_bool() ? "/abs.in" : "rel.in"; g_def.file_identifier = vin_def_id;
  g_db._requests.push_back(&g_def); g_db._error_flag = false; g_read_calls = 0;
  g_db.load_latest();
  OBL(g_db._requests._n == 0, "C12.load_latest: no request stays pending");
  bool is_abs = g_def.database_filename[0] == '/';
  bool opened = (is_abs || vin_found) && vin_readable;
  if (!opened) { OBL(g_db._error_flag && g_read_calls == 0, "C12.load_latest: a database file that cannot be found or opened is reported through the error flag and nothing is read"); }
  else {
    bool version_ok = vin_major == 3 && vin_minor <= 3;
    if (!version_ok) OBL(g_db._error_flag && g_read_calls == 0, "C12.load_latest: a newer minor or a different major version is reported through the error flag and never read (never half-merged)");
    else {
      OBL(g_read_calls == 1, "C12.load_latest: a file of a readable 3.x version is read exactly once");
      OBL(g_major_at_read == vin_major && g_minor_at_read == vin_minor, "C12.load_latest: the records are read under the file's own minor version (older formats get their defaults)");
      if (!vin_read_ok) OBL(g_db._error_flag, "C12.load_latest: a file that fails to read (truncated) is reported through the error flag");
    }
    if (vin_def_id != 0 && vin_id != vin_def_id) OBL(g_db._error_flag, "C12.load_latest: a file-identifier mismatch is reported through the error flag");
    if (version_ok && vin_read_ok && !(vin_def_id != 0 && vin_id != vin_def_id)) OBL(!g_db._error_flag, "C12.load_latest: a matching, readable file raises no error");
  }
  VU_REACHED();
}
