#!/usr/bin/env python3
import os, sys, subprocess
here = os.path.dirname(os.path.realpath(__file__))
sys.exit(subprocess.call([sys.executable, os.path.join(here, "..", "..", "lib", "recordgen.py"), sys.argv[1], sys.argv[2]]))
