// VU c13_db: InterrogateDatabase::merge_from (two small databases), request_module, lookup and the
// freshen_* functions, add_* / update_*.  Concrete containers with small capacities: B mode.
#define private public
#define protected public
#include "vu_common.h"
//@headers src/dtoolbase src/interrogatedb
//@shadow config_interrogatedb.h indent.h
//@truncate interrogateDatabase.I from=src/interrogatedb/interrogateDatabase.I anchor="lookup_type_by_name(const"
//@hdrsubst interrogateDatabase.h "from=void \(InterrogateDatabase::\*freshen\)\(\)\);" "to=int freshen);"
//@generate gen.py
#include "interrogateDatabase.h"
#include "indexRemapper.h"
#include "records_gen.h"

//@whole src/interrogatedb/indexRemapper.cxx
//@extract src/interrogatedb/interrogateType.cxx InterrogateType::InterrogateType ordinal=0
//@extract src/interrogatedb/interrogateType.cxx InterrogateType::InterrogateType ordinal=1
//@extract src/interrogatedb/interrogateType.cxx "InterrogateType::operator ="
//@extract src/interrogatedb/interrogateType.cxx InterrogateType::merge_with
//@extract src/interrogatedb/interrogateType.cxx InterrogateType::remap_indices
//@extract src/interrogatedb/interrogateFunction.cxx InterrogateFunction::InterrogateFunction ordinal=0
//@extract src/interrogatedb/interrogateFunction.cxx InterrogateFunction::remap_indices
//@extract src/interrogatedb/interrogateFunctionWrapper.cxx InterrogateFunctionWrapper::remap_indices
//@extract src/interrogatedb/interrogateElement.cxx InterrogateElement::remap_indices
//@extract src/interrogatedb/interrogateManifest.cxx InterrogateManifest::remap_indices
//@extract src/interrogatedb/interrogateMakeSeq.cxx InterrogateMakeSeq::remap_indices
//@extract src/interrogatedb/interrogateDatabase.cxx InterrogateDatabase::InterrogateDatabase
//@extract src/interrogatedb/interrogateDatabase.cxx InterrogateDatabase::request_module
//@extract src/interrogatedb/interrogateDatabase.cxx InterrogateDatabase::remap_indices "sig=IndexRemapper &remap"
//@extract src/interrogatedb/interrogateDatabase.cxx InterrogateDatabase::add_type
//@extract src/interrogatedb/interrogateDatabase.cxx InterrogateDatabase::add_function
//@extract src/interrogatedb/interrogateDatabase.cxx InterrogateDatabase::add_wrapper
//@extract src/interrogatedb/interrogateDatabase.cxx InterrogateDatabase::add_manifest
//@extract src/interrogatedb/interrogateDatabase.cxx InterrogateDatabase::add_element
//@extract src/interrogatedb/interrogateDatabase.cxx InterrogateDatabase::add_make_seq
//@extract src/interrogatedb/interrogateDatabase.cxx InterrogateDatabase::update_type
//@extract src/interrogatedb/interrogateDatabase.cxx InterrogateDatabase::update_function
//@extract src/interrogatedb/interrogateDatabase.cxx InterrogateDatabase::update_wrapper
//@extract src/interrogatedb/interrogateDatabase.cxx InterrogateDatabase::update_manifest
//@extract src/interrogatedb/interrogateDatabase.cxx InterrogateDatabase::update_element
//@extract src/interrogatedb/interrogateDatabase.cxx InterrogateDatabase::update_make_seq
//@extract src/interrogatedb/interrogateDatabase.cxx InterrogateDatabase::merge_from
//@extract src/interrogatedb/interrogateDatabase.cxx InterrogateDatabase::freshen_types_by_name
//@extract src/interrogatedb/interrogateDatabase.cxx InterrogateDatabase::freshen_types_by_scoped_name
//@extract src/interrogatedb/interrogateDatabase.cxx InterrogateDatabase::freshen_types_by_true_name
//@extract src/interrogatedb/interrogateDatabase.cxx InterrogateDatabase::freshen_manifests_by_name
//@extract src/interrogatedb/interrogateDatabase.cxx InterrogateDatabase::freshen_elements_by_name
//@extract src/interrogatedb/interrogateDatabase.cxx InterrogateDatabase::freshen_elements_by_scoped_name
// R14: CBMC's C++ front end has no pointers to member functions: the `freshen` parameter of lookup() becomes an int
// tag and `(this->*freshen)()` a call of the dispatcher below, which calls the real freshen_* function for that tag
//@extract src/interrogatedb/interrogateDatabase.cxx InterrogateDatabase::lookup "subst1=@void \(InterrogateDatabase::\*freshen\)\(\)\)@int freshen)@" "subst2=@\(this->\*freshen\)\(\);@vu_freshen(this, freshen);@"

std::string InterrogateComponent::_empty_string;
void InterrogateDatabase::load_latest() { _requests.clear(); }

static void vu_freshen(InterrogateDatabase *db, int tag) {
  switch (tag) {
  case 0: db->freshen_types_by_name(); break;
  case 1: db->freshen_types_by_scoped_name(); break;
  case 2: db->freshen_types_by_true_name(); break;
  case 3: db->freshen_manifests_by_name(); break;
  case 4: db->freshen_elements_by_name(); break;
  default: db->freshen_elements_by_scoped_name(); break;
  }
}

static InterrogateDatabase g_db, g_other;

// ================= request_module: each module gets its own contiguous index range, _modules stays sorted
static InterrogateModuleDef g_def1, g_def2;
void h_request_module() {
  int vin_next = nondet_int(), vin_n1 = nondet_int(), vin_n2 = nondet_int(), vin_f1 = nondet_int(), vin_f2 = nondet_int();
  __CPROVER_assume(vin_next >= 1 && vin_next < 1000000 && vin_n1 >= 0 && vin_n1 < 1000000 && vin_n2 >= 0 && vin_n2 < 1000000);
  __CPROVER_assume(vin_f1 >= 0 && vin_f1 < 1000000 && vin_f2 >= 0 && vin_f2 < 1000000);
  g_db._next_index = vin_next;
  g_def1.first_index = vin_f1; g_def1.next_index = vin_f1 + vin_n1; g_def1.num_unique_names = 0; g_def1.database_filename = 0;
  g_def2.first_index = vin_f2; g_def2.next_index = vin_f2 + vin_n2; g_def2.num_unique_names = 0; g_def2.database_filename = 0;
  g_db.request_module(&g_def1);
  g_db.request_module(&g_def2);
  __CPROVER_assume(!g_db._modules._trunc);        // (the model's vector capacity is not exceeded: two modules)
  if (vin_n1 > 0) OBL(g_def1.first_index == vin_next && g_def1.next_index == vin_next + vin_n1, "C13.request_module: a module with indices gets the range [next_index, next_index + n)");
  if (vin_n2 > 0) OBL(g_def2.first_index == vin_next + (vin_n1 > 0 ? vin_n1 : 0) && g_def2.next_index == g_def2.first_index + vin_n2, "C13.request_module: successive modules get contiguous, disjoint ranges");
  OBL(g_db._next_index == vin_next + (vin_n1 > 0 ? vin_n1 : 0) + (vin_n2 > 0 ? vin_n2 : 0), "C13.request_module: next_index advances by the indices handed out");
  OBL(g_db._modules._n == (size_t)((vin_n1 > 0) + (vin_n2 > 0)), "C13.request_module: exactly the modules with indices are registered for index lookup");
  if (vin_n1 > 0 && vin_n2 > 0) OBL(g_db._modules._d[0]->first_index < g_db._modules._d[1]->first_index, "C13.request_module: the module table stays sorted by first_index (precondition of binary_search_module)");
  VU_REACHED();
}

// ================= lookup: freshens a stale table, then answers from it
static InterrogateType g_t1, g_t2;
static void two_types(int i1, int i2, bool two) {
  g_vu_shape = -1;
  havoc_InterrogateType(g_t1); havoc_InterrogateType(g_t2);
  g_db._type_map[i1] = g_t1; if (two) g_db._type_map[i2] = g_t2;
}
void h_lookup_types_by_name() {
  int vin_i1 = nondet_int(), vin_i2 = nondet_int(); __CPROVER_assume(vin_i1 > 0 && vin_i2 > 0 && vin_i1 != vin_i2);
  bool vin_two = nondet_bool();
  two_types(vin_i1, vin_i2, vin_two);
  // a stale by-name table with arbitrary content
  std::string stale_key; vu_havoc_string(stale_key); g_db._types_by_name[stale_key] = nondet_int();
  g_db._lookups_fresh = nondet_int() & ~(int)InterrogateDatabase::LT_type_name;
  int fresh0 = g_db._lookups_fresh;
  std::string vin_name; vu_havoc_string(vin_name);
  int r = g_db.lookup(vin_name, g_db._types_by_name, InterrogateDatabase::LT_type_name, 0);
  OBL((g_db._lookups_fresh & InterrogateDatabase::LT_type_name) != 0 && (g_db._lookups_fresh & ~InterrogateDatabase::LT_type_name) == fresh0, "C20.lookup: the table that was stale is marked fresh, the others keep their state");
  bool n1 = g_t1._name == vin_name, n2 = vin_two && g_t2._name == vin_name;
  if (n1 || n2) OBL((n1 && r == vin_i1) || (n2 && r == vin_i2), "C20.lookup: looking an entity up by its name returns an entity bearing that name");
  else OBL(r == 0, "C20.lookup: an unknown name returns 0 (stale table content is discarded)");
  VU_REACHED();
}
// a fresh table is used as it is (no re-scan): the answer is the table's
void h_lookup_fresh_table() {
  std::string key; vu_havoc_string(key); int vin_idx = nondet_int();
  g_db._types_by_scoped_name[key] = vin_idx;
  g_db._lookups_fresh = nondet_int() | (int)InterrogateDatabase::LT_type_scoped_name;
  std::string vin_name; vu_havoc_string(vin_name);
  int r = g_db.lookup(vin_name, g_db._types_by_scoped_name, InterrogateDatabase::LT_type_scoped_name, 1);
  OBL(r == ((vin_name == key) ? vin_idx : 0), "C20.lookup: a fresh table answers: the mapped index or 0");
  VU_REACHED();
}
// each freshen_* function rebuilds its own table from its own name accessor
#define FRESHEN_ENTRY(H, FN, TABLE, FIELD) \
void H() { int vin_i1 = nondet_int(), vin_i2 = nondet_int(); __CPROVER_assume(vin_i1 > 0 && vin_i2 > 0 && vin_i1 != vin_i2); \
  two_types(vin_i1, vin_i2, true); \
  std::string stale_key; vu_havoc_string(stale_key); g_db.TABLE[stale_key] = nondet_int(); \
  g_db.FN(); \
  std::string vin_name; vu_havoc_string(vin_name); \
  std::map<std::string, int>::const_iterator li = g_db.TABLE.find(vin_name); \
  bool n1 = g_t1.FIELD == vin_name, n2 = g_t2.FIELD == vin_name; \
  if (n1 || n2) OBL(li != g_db.TABLE.end() && ((n1 && (*li).second == vin_i1) || (n2 && (*li).second == vin_i2)), "C20." #FN ": every name of that kind maps to an entity bearing it"); \
  else OBL(li == g_db.TABLE.end(), "C20." #FN ": names nobody bears are absent (stale entries discarded)"); \
  VU_REACHED(); }
FRESHEN_ENTRY(h_freshen_types_by_name, freshen_types_by_name, _types_by_name, _name)
FRESHEN_ENTRY(h_freshen_types_by_scoped_name, freshen_types_by_scoped_name, _types_by_scoped_name, _scoped_name)
FRESHEN_ENTRY(h_freshen_types_by_true_name, freshen_types_by_true_name, _types_by_true_name, _true_name)

// ================= merge_from with an empty other database: the lookup tables are invalidated whatever else happens
void h_merge_from_empty() {
  g_db._lookups_fresh = nondet_int();
  g_db.merge_from(g_other);
  OBL(g_db._lookups_fresh == 0, "C13.merge_from: every by-name lookup table is stale after a merge (queries after a later load see the new library)");
  VU_REACHED();
}

// ================= merge_from: A holds one type, B (already renumbered to a fresh range) two types and one function
static InterrogateFunction g_fn;
// names: scenario < 0 -> symbolic (not run: too heavy); otherwise concrete (name, true name) triples
static void merge_from_case(int scenario) {
  int vin_ia, vin_ib1, vin_ib2, vin_if;
  if (scenario < 0) {
    vin_ia = nondet_int(); vin_ib1 = nondet_int(); vin_ib2 = nondet_int(); vin_if = nondet_int();
    __CPROVER_assume(vin_ia > 0 && vin_ib1 > 0 && vin_ib2 > 0 && vin_if > 0);
    __CPROVER_assume(vin_ia != vin_ib1 && vin_ia != vin_ib2 && vin_ib1 != vin_ib2 && vin_if != vin_ia && vin_if != vin_ib1 && vin_if != vin_ib2);   // disjoint index ranges (read() renumbers first)
  } else { vin_ia = 2; vin_ib1 = (scenario & 1) ? 7 : 5; vin_ib2 = (scenario & 1) ? 5 : 7; vin_if = 6; }   // concrete, disjoint, in both orders
  static InterrogateType ta, tb1, tb2;
  g_vu_shape = 0; g_vu_k = 0;                        // lists empty; names set below
  havoc_InterrogateType(ta); havoc_InterrogateType(tb1); havoc_InterrogateType(tb2); havoc_InterrogateFunction(g_fn);
  g_vu_shape = -1;
  switch (scenario) {
  case 0: ta._name = "I"; ta._true_name = "I"; tb1._name = "I"; tb1._true_name = "I"; tb2._name = "J"; tb2._true_name = "J"; break;         // shared top-level type
  case 1: ta._name = "I"; ta._true_name = "I"; tb1._name = "I"; tb1._true_name = "O::I"; tb2._name = "O"; tb2._true_name = "O"; break;      // nested O::I is not the top-level I
  case 2: ta._name = "I"; ta._true_name = "O::I"; tb1._name = "K"; tb1._true_name = "K"; tb2._name = "I"; tb2._true_name = "O::I"; break;  // same true name, second position
  case 3: ta._name = "I"; ta._true_name = "I"; tb1._name = "J"; tb1._true_name = "J"; tb2._name = "K"; tb2._true_name = "K"; break;         // nothing shared
  case 4: ta._name = "I"; ta._true_name = "I"; tb1._name = ""; tb1._true_name = "I"; tb2._name = "K"; tb2._true_name = "K"; break;          // unnamed type is never identified
  default: vu_havoc_string(ta._name); vu_havoc_string(ta._true_name); vu_havoc_string(tb1._name); vu_havoc_string(tb1._true_name); vu_havoc_string(tb2._name); vu_havoc_string(tb2._true_name); break;
  }
  __CPROVER_assume(!(tb1._true_name == tb2._true_name));                    // B is a consistent database
  ta._outer_class = 0; ta._wrapped_type = 0; ta._destructor = 0;          // A's references point inside A (there is nothing else)
  tb1._outer_class = 0; tb1._wrapped_type = vin_ib2; tb1._destructor = vin_if;
  tb2._outer_class = vin_ib1; tb2._wrapped_type = 0; tb2._destructor = 0;
  g_fn._class = vin_ib1;
  g_db._type_map[vin_ia] = ta; g_db._all_types.push_back(vin_ia);
  g_db._lookups_fresh = nondet_int();
  g_other._type_map[vin_ib1] = tb1; g_other._type_map[vin_ib2] = tb2; g_other._function_map[vin_if] = &g_fn;
  bool a_named = ta._true_name._n != 0;
  bool id1 = tb1._name._n != 0 && a_named && tb1._true_name == ta._true_name;     // B's type 1 is A's type
  bool id2 = tb2._name._n != 0 && a_named && tb2._true_name == ta._true_name;
  g_db.merge_from(g_other);
  OBL(g_db._lookups_fresh == 0, "C13.merge_from: every by-name lookup table is stale after a merge (queries after a later load see the new library)");
  // where B's types ended up
  int m1 = id1 ? vin_ia : vin_ib1, m2 = id2 ? vin_ia : vin_ib2;
  OBL(g_db._type_map.count(m1) == 1 && g_db._type_map.count(m2) == 1, "C13.merge_from: no type is lost");
  OBL(id1 ? g_db._type_map.count(vin_ib1) == 0 : true, "C13.merge_from: a type with the true name of an existing type is identified with it, not added again");
  OBL(id2 ? g_db._type_map.count(vin_ib2) == 0 : true, "C13.merge_from: a type with the true name of an existing type is identified with it, not added again");
  OBL(!id1 && !id2 ? g_db._type_map._n == 3 : g_db._type_map._n == 2, "C13.merge_from: types are identified exactly when their true names are equal");
  // cross references are carried over to the merged indices
  OBL(g_db._function_map.count(vin_if) == 1 && g_db._function_map[vin_if]->_class == m1, "C13.merge_from: a function's class reference follows the identification");
  if (!id1) OBL(g_db._type_map[vin_ib1]._wrapped_type == m2, "C13.merge_from: a copied type's references follow the identification");
  if (!id2) OBL(g_db._type_map[vin_ib2]._outer_class == m1, "C13.merge_from: a copied type's references follow the identification");
  VU_REACHED();
}
void h_merge_from() { merge_from_case(-1); }
void h_merge_from_shared() { merge_from_case(0); }
void h_merge_from_nested_same_name() { merge_from_case(1); }
void h_merge_from_shared_second() { merge_from_case(2); }
void h_merge_from_disjoint() { merge_from_case(3); }
void h_merge_from_unnamed() { merge_from_case(4); }

// ================= merge_from: A and B share TWO types, T (which refers to U) and U; whichever definition of T survives,
// its references are indices of the merged database (closure), for every combination of fully-defined / global flags
void h_merge_from_two_shared() {
  const int ia_t = 2, ia_u = 3, ib_t = 7, ib_u = 8;          // disjoint index ranges (read() renumbers first)
  static InterrogateType ta_t, ta_u, tb_t, tb_u;
  g_vu_shape = 0; g_vu_k = 0;
  havoc_InterrogateType(ta_t); havoc_InterrogateType(ta_u); havoc_InterrogateType(tb_t); havoc_InterrogateType(tb_u);
  g_vu_shape = -1;
  ta_t._name = "T"; ta_t._true_name = "T"; tb_t._name = "T"; tb_t._true_name = "T";
  ta_u._name = "U"; ta_u._true_name = "U"; tb_u._name = "U"; tb_u._true_name = "U";
  ta_t._outer_class = 0; ta_t._wrapped_type = ia_u; ta_t._destructor = 0; ta_u._outer_class = 0; ta_u._wrapped_type = 0; ta_u._destructor = 0;
  tb_t._outer_class = 0; tb_t._wrapped_type = ib_u; tb_t._destructor = 0; tb_u._outer_class = 0; tb_u._wrapped_type = 0; tb_u._destructor = 0;
  g_db._type_map[ia_t] = ta_t; g_db._type_map[ia_u] = ta_u; g_db._all_types.push_back(ia_t); g_db._all_types.push_back(ia_u);
  g_other._type_map[ib_t] = tb_t; g_other._type_map[ib_u] = tb_u;
  g_db.merge_from(g_other);
  OBL(g_db._type_map._n == 2 && g_db._type_map.count(ia_t) == 1 && g_db._type_map.count(ia_u) == 1, "C13.merge_from: both shared types are identified with the existing ones");
  int w = g_db._type_map[ia_t]._wrapped_type;
  OBL(w == ia_u, "C13.merge_from: whichever definition of a shared type survives (ours or theirs, by the fully-defined / global rule), its references are carried over to the merged indices: T still refers to the one merged U");
  VU_REACHED();
}

// ================= remap_indices(first, remap): a freshly read database is renumbered behind the indices already in use;
// every record OF THE DATABASE (not a copy of it) has its references rewritten, the enumeration lists follow
void h_db_remap_indices() {
  static InterrogateFunction fn; static InterrogateType t; static InterrogateManifest m;
  g_vu_shape = 0; g_vu_k = 0;
  havoc_InterrogateFunction(fn); havoc_InterrogateType(t); havoc_InterrogateManifest(m);
  g_vu_shape = -1;
  const int ifn = 9, it = 7, im = 3;                      // three entities: the remapper's table holds 3 pairs (map capacity of this unit)
  fn._class = it;
  t._outer_class = 0; t._wrapped_type = 0; t._destructor = ifn;
  m._type = it; m._getter = ifn; m._int_value = nondet_int();
  g_db._function_map[ifn] = &fn; g_db._type_map[it] = t; g_db._manifest_map[im] = m;
  g_db._all_functions.push_back(ifn); g_db._global_types.push_back(it); g_db._all_types.push_back(it); g_db._global_manifests.push_back(im);
  int vin_first = nondet_bool() ? 20 : 7;                 // behind everything, or overlapping the old indices (7 is the old type index)
  IndexRemapper remap;
  int next = g_db.remap_indices(vin_first, remap);
  int nf = vin_first, nt = vin_first + 1, nm = vin_first + 2;
  OBL(next == vin_first + 3 && g_db._next_index == next, "C13.remap_indices: the module receives a contiguous index range (wrappers first, then functions, types, manifests, elements, sequences)");
  OBL(g_db._function_map.count(nf) == 1 && g_db._type_map.count(nt) == 1 && g_db._manifest_map.count(nm) == 1 && g_db._function_map._n == 1 && g_db._type_map._n == 1 && g_db._manifest_map._n == 1, "C13.remap_indices: every entity is found under its new index, and only there");
  OBL(g_db._function_map[nf]->_class == nt && g_db._type_map[nt]._destructor == nf, "C11.remap_indices: the references of the function and type records in the database are rewritten");
  OBL(g_db._manifest_map[nm]._type == nt && g_db._manifest_map[nm]._getter == nf, "C11.remap_indices: the references of the manifest records in the database (not of copies) are rewritten");
  OBL(g_db._all_functions._d[0] == nf && g_db._global_types._d[0] == nt && g_db._all_types._d[0] == nt && g_db._global_manifests._d[0] == nm, "C13.remap_indices: the enumeration lists follow the renumbering");
  VU_REACHED();
}
