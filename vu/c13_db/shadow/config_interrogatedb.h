/* VU stub: the search path is not used by the kernels of this VU */
#ifndef CONFIG_INTERROGATEDB_H
#define CONFIG_INTERROGATEDB_H
#include "dtoolbase.h"
#endif
