"""Native replay for VU c18_pstrtod: the real pstrtod (compiled from the working tree) against glibc's correctly
rounded strtod in the C locale."""
import os, sys, tempfile, shutil
sys.path.insert(0, os.path.join(os.path.dirname(os.path.realpath(__file__)), "..", "..", "lib"))
import native

DRIVER = r'''
#include "%(repo)s/src/dtoolbase/pstrtod.cxx"
#include <stdio.h>
#include <stdlib.h>
int main(int argc, char **argv) {
  char *e1 = 0, *e2 = 0;
  double a = pstrtod(argv[1], &e1), b = strtod(argv[1], &e2);
  printf("pstrtod(\"%%s\") = %%.17g (consumed %%d), correctly rounded = %%.17g (consumed %%d)\n", argv[1], a, (int)(e1 - argv[1]), b, (int)(e2 - argv[1]));
  return !(a == b) || e1 != e2;
}
'''


def replay(ctx):
    vin = ctx["vin"]
    try:
        n = int(str(vin.get("vin_len", "0")).rstrip("ul"))
    except Exception:
        n = 0
    s = ""
    for i in range(n):
        b = vin.get("vin_s[%dl]#bin" % i)
        s += chr(int(b, 2)) if b else "0"
    if not s:
        return {"reproduced": False, "note": "no input string in the trace"}
    d = tempfile.mkdtemp(prefix="verif-replay-", dir="/var/tmp")
    try:
        src = os.path.join(d, "drv.cpp")
        open(src, "w").write(DRIVER % {"repo": ctx["repo"]})
        rc, out = native.sh(["g++", "-std=gnu++11", "-O1", "-DNDEBUG", "-I%s/src/dtoolbase" % ctx["repo"], "-I%s/_build/cmake/src/dtoolbase" % ctx["repo"], src, "-o", os.path.join(d, "drv")])
        if rc != 0:
            return {"reproduced": False, "error": "driver did not compile", "log": out[-1200:]}
        rc, out = native.sh(["timeout", "20", os.path.join(d, "drv"), s], env={"LC_ALL": "C", "PATH": os.environ.get("PATH", "")})
        return {"reproduced": rc != 0, "input": s, "cmd": "pstrtod(%r) vs strtod" % s, "observed": native.describe_exit(rc), "output": out[-300:]}
    finally:
        shutil.rmtree(d, ignore_errors=True)
