// VU c18_pstrtod: the locale-independent number parser, compiled as it is.  Bounded in literal length.
#include "vu_common.h"
#include <ctype.h>
//@headers src/dtoolbase
// callees outside the kernel (contracts in replace form)
static bool g_strtod_called;
extern "C" double strtod(const char *nptr, char **endptr) { g_strtod_called = true; if (endptr) *endptr = (char *)nptr; return nondet_double(); }
extern "C" int strncasecmp(const char *a, const char *b, size_t n) {
  for (size_t i = 0; i < n; i++) { int x = tolower((unsigned char)a[i]), y = tolower((unsigned char)b[i]); if (x != y) return x < y ? -1 : 1; if (x == 0) return 0; }
  return 0;
}
extern "C" int strncmp(const char *a, const char *b, size_t n) {
  for (size_t i = 0; i < n; i++) { unsigned char x = a[i], y = b[i]; if (x != y) return x < y ? -1 : 1; if (x == 0) return 0; }
  return 0;
}
// pow(10, n): exact for the integers 0..22 (10^22 < 2^73 has <= 53 significant bits); arbitrary otherwise
static const double kP10[23] = { 1e0, 1e1, 1e2, 1e3, 1e4, 1e5, 1e6, 1e7, 1e8, 1e9, 1e10, 1e11, 1e12, 1e13, 1e14, 1e15, 1e16, 1e17, 1e18, 1e19, 1e20, 1e21, 1e22 };
extern "C" double pow(double b, double e) {
  if (b == 10.0) for (int i = 0; i <= 22; i++) if (e == (double)i) return kP10[i];
  return nondet_double();
}
// R13: std::numeric_limits<double>::X() -> vu_limits_double_X() (the front end does not instantiate static members of class templates)
static double vu_limits_double_infinity() { union { unsigned long x; double d; } u; u.x = 0x7ff0000000000000UL; return u.d; }
static double vu_limits_double_quiet_NaN() { union { unsigned long x; double d; } u; u.x = 0x7ff8000000000000UL; return u.d; }
static double vu_limits_double_signaling_NaN() { union { unsigned long x; double d; } u; u.x = 0x7ff4000000000000UL; return u.d; }
//@whole src/dtoolbase/pstrtod.cxx "osubst1=@std::numeric_limits<double>::(\w+)\(\)@vu_limits_double_\1()@"

#ifndef VU_LIT_MAX
#define VU_LIT_MAX 5
#endif
static char vin_s[VU_LIT_MAX + 1];

// the literal grammar of the property: digits [. digits] [(e|E) [sign] digits]; returns false if s is not of that shape
static bool parse_spec(const char *s, int n, unsigned long *M, int *E, bool *has_frac) {
  int i = 0; unsigned long m = 0; int e10 = 0; int nd = 0; *has_frac = false;
  while (i < n && isdigit(s[i])) { m = m * 10 + (s[i] - '0'); nd++; i++; }
  if (i < n && s[i] == '.') { i++; while (i < n && isdigit(s[i])) { m = m * 10 + (s[i] - '0'); e10--; nd++; *has_frac = true; i++; } }
  if (nd == 0) return false;
  if (i < n && (s[i] == 'e' || s[i] == 'E')) {
    i++; bool neg = false; if (i < n && (s[i] == '+' || s[i] == '-')) { neg = s[i] == '-'; i++; }
    int ev = 0, ne = 0; while (i < n && isdigit(s[i])) { ev = ev * 10 + (s[i] - '0'); ne++; i++; }
    if (ne == 0) return false;
    e10 += neg ? -ev : ev;
  }
  if (i != n) return false;
  *M = m; *E = e10; return true;
}

void h_pstrtod_value() {
  int vin_len = nondet_int(); __CPROVER_assume(vin_len >= 1 && vin_len <= VU_LIT_MAX);
  for (int i = 0; i < VU_LIT_MAX; i++) { char c = nondet_char(); vin_s[i] = (i < vin_len) ? c : (char)0; if (i < vin_len) __CPROVER_assume(c != 0); }
  vin_s[VU_LIT_MAX] = 0;
  unsigned long M; int E; bool has_frac;
  bool is_lit = parse_spec(vin_s, vin_len, &M, &E, &has_frac);
  __CPROVER_assume(is_lit);
#ifdef KF_C18_PSTRTOD_FRACTION
  __CPROVER_assume(!has_frac);
#endif
  char *end = 0;
  double r = pstrtod(vin_s, &end);
  OBL(!g_strtod_called, "C18.pstrtod: a decimal literal is parsed without the locale-dependent strtod");
  OBL(end == vin_s + vin_len, "C18.pstrtod: the whole literal is consumed");
  // Clinger's fast path: M < 2^53 and |E| <= 22: both operands exact, so ONE IEEE operation is the correctly rounded value
  if (E >= 0 && E <= 22) OBL(r == (double)M * kP10[E], "C18.pstrtod: the result is the correctly rounded value of the literal (M * 10^E, one IEEE operation on exact operands)");
  if (E < 0 && E >= -22) OBL(r == (double)M / kP10[-E], "C18.pstrtod: the result is the correctly rounded value of the literal (M / 10^-E, one IEEE operation on exact operands)");
  VU_REACHED();
}

// any byte string: memory safety, endptr inside the buffer
void h_pstrtod_any_bytes() {
  int vin_len = nondet_int(); __CPROVER_assume(vin_len >= 0 && vin_len <= VU_LIT_MAX);
  for (int i = 0; i < VU_LIT_MAX; i++) { char c = nondet_char(); vin_s[i] = (i < vin_len) ? c : (char)0; if (i < vin_len) __CPROVER_assume(c != 0); }
  vin_s[VU_LIT_MAX] = 0;
  __CPROVER_assume(!(isalpha((unsigned char)vin_s[0]) ));      // (inf/nan/strtod fall-back spellings are covered by h_pstrtod_inf_nan)
  char *end = 0;
  double r = pstrtod(vin_s, &end);
  OBL(end >= vin_s && end <= vin_s + vin_len, "C18.pstrtod: endptr points into the argument string for any byte string");
  VU_REACHED();
}

// a long literal (more significant digits than a double holds): still parsed here, never handed to strtod, wholly consumed
void h_pstrtod_long_literal() {
  static char s[24];
  int vin_dot = nondet_int(); __CPROVER_assume(vin_dot >= 0 && vin_dot <= 21);
  for (int i = 0; i < 22; i++) { char c = nondet_char(); __CPROVER_assume(c >= '0' && c <= '9'); s[i] = (i == vin_dot && vin_dot < 21) ? '.' : c; }
  s[22] = 0;
  char *end = 0; g_strtod_called = false;
  double r = pstrtod(s, &end);
  OBL(!g_strtod_called, "C18.pstrtod: a literal with more digits than a double holds is still parsed without the locale-dependent strtod");
  OBL(end == s + 22, "C18.pstrtod: the whole long literal is consumed");
  OBL(r >= 0.0, "C18.pstrtod: a digit string is never negative");
  // leading zeros are not significant digits: 0.00000000000000000016 is 16 / 10^20 (one correctly rounded operation)
  bool lead_zero = vin_dot <= 19;
  for (int i = 0; i < 20; i++) if (i != vin_dot && s[i] != '0') lead_zero = false;
  if (lead_zero) {
    int m = (s[20] - '0') * 10 + (s[21] - '0'); int k = 21 - vin_dot;
    OBL(r == (double)m / kP10[k], "C18.pstrtod: a literal with many leading zeros keeps its significant digits (0.00000000000000000016 is 1.6e-19, not 0)");
  }
  VU_REACHED();
}
