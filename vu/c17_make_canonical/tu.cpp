// VU c17_make_canonical: Filename::make_canonical.  Two names of one file (through a symbolic link, relative or fully
// qualified) must get one canonical name, because #pragma once, the explicit-file test and include de-duplication compare
// canonical names.  Contract: whenever realpath() can resolve the name, the canonical name is derived from the resolved one.
#include "env.h"
//@extract src/dtoolutil/filename.cxx Filename::make_canonical

void h_make_canonical() {
  Filename f; f._empty = nondet_bool(); f._is_root = nondet_bool(); f._id = nondet_long(); f._flags = nondet_int();
  long vin_id = f._id; int vin_flags = f._flags;
  g_realpath_ok = nondet_bool(); g_realpath_calls = 0;
  bool r = f.make_canonical();
  if (f._empty) { OBL(!r && g_realpath_calls == 0, "C17.make_canonical: the empty name names nothing"); }
  else if (f._is_root) { OBL(r && f._id == vin_id, "C17.make_canonical: the root directory is canonical as it is"); }
  else {
    OBL(g_realpath_calls == 1, "C17.make_canonical: every other name, relative or fully qualified, is handed to realpath() once");
    long base = g_realpath_ok ? __CPROVER_uninterpreted_realpath(vin_id) : vin_id;
    OBL(f._id == __CPROVER_uninterpreted_canon_dirs(base), "C17.make_canonical: when realpath() resolves the name, the canonical name is derived from the resolved name (a symlink to a file and the file get the same canonical name)");
    OBL(f._flags == vin_flags, "C17.make_canonical: the text/binary flags of the name are kept");
  }
  VU_REACHED();
}
