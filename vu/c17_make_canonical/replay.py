"""Native replay for VU c17_make_canonical: a header guarded by #pragma once is included under several spellings that reach
it through symbolic links (relative and fully qualified); the parse_file built from the working tree must see its
declaration once."""
import os, sys, tempfile, shutil
sys.path.insert(0, os.path.join(os.path.dirname(os.path.realpath(__file__)), "..", "..", "lib"))
import native


def replay(ctx):
    nb = native.NativeBuild(targets=("parse_file",))
    try:
        if not nb.build():
            return {"reproduced": False, "error": "native build failed", "log": nb.log[-1500:]}
        d = tempfile.mkdtemp(prefix="verif-replay-", dir="/var/tmp")
        inc, work = os.path.join(d, "inc"), os.path.join(d, "work")
        os.makedirs(os.path.join(inc, "deep")); os.makedirs(work)
        open(os.path.join(inc, "real.h"), "w").write("#pragma once\nint only_once;\n")
        os.symlink("real.h", os.path.join(inc, "alias.h"))
        os.symlink("../real.h", os.path.join(inc, "deep", "up.h"))
        open(os.path.join(work, "top.h"), "w").write('#include "real.h"\n#include "alias.h"\n#include "deep/up.h"\nint tail_marker;\n')
        open(os.path.join(work, "top3.h"), "w").write('#include "real.h"\nint tail_marker;\n')
        seen = []
        rc, out = native.sh(["timeout", "20", nb.bin("parse_file"), "-E", "-I", inc, "top.h"], stdin=b"", cwd=work)
        if out.count("only_once") != 1:
            seen.append("-I spellings through symlinks: declaration seen %d times" % out.count("only_once"))
        rc, out = native.sh(["timeout", "20", nb.bin("parse_file"), "-E", "-I", inc, os.path.join(inc, "alias.h"), "top3.h"], stdin=b"", cwd=work)
        if out.count("only_once") != 1:
            seen.append("command line names the symlink by its absolute path, then the file is included: declaration seen %d times" % out.count("only_once"))
        shutil.rmtree(d, ignore_errors=True)
        return {"reproduced": bool(seen), "cmd": "parse_file -E -I inc [inc/alias.h] top.h (real.h has #pragma once; alias.h and deep/up.h are symlinks to it)",
                "observed": "; ".join(seen) or "the declaration is seen once under every spelling"}
    finally:
        nb.close()
