// Environment of Filename::make_canonical: a skeleton Filename whose text is an abstract identity (the real class is
// rejected by the front end); realpath(3), r_make_canonical and make_true_case are callees (uninterpreted functions).
#ifndef C17C_ENV_H
#define C17C_ENV_H
#include "vu_common.h"
#include <string>
#include <limits.h>
#include "vstl_globals.h"
#ifndef PATH_MAX
#define PATH_MAX 4096
#endif
long __CPROVER_uninterpreted_realpath(long path);          // the path with every symlink resolved
long __CPROVER_uninterpreted_canon_dirs(long path);        // r_make_canonical: directory part made canonical via chdir/getcwd
static char g_cstr_buf[2]; static long g_cstr_of; static bool g_realpath_ok; static int g_realpath_calls;
static long g_newpath_id;
class Filename {
public:
  long _id; bool _empty, _is_root; int _flags;
  Filename() : _id(0), _empty(true), _is_root(false), _flags(0) {}
  // a name built from the buffer realpath() filled is the resolved name
  Filename(const char *s) : _id(g_newpath_id), _empty(false), _is_root(false), _flags(0) {}
  bool empty() const { return _empty; }
  std::string get_fullpath() const { return _is_root ? std::string("/") : std::string("p"); }
  const char *c_str() const { g_cstr_of = _id; return g_cstr_buf; }
  bool is_local() const { return nondet_bool(); }
  static Filename get_cwd() { Filename f; f._empty = false; f._id = -1; return f; }
  bool r_make_canonical(const Filename &cwd) { _id = __CPROVER_uninterpreted_canon_dirs(_id); return nondet_bool(); }
  bool make_true_case() { return true; }
  bool make_canonical();
};
extern "C" char *realpath(const char *path, char *resolved) {
  g_realpath_calls++;
  if (!g_realpath_ok) return 0;
  g_newpath_id = __CPROVER_uninterpreted_realpath(g_cstr_of);
  return resolved;
}
#endif
