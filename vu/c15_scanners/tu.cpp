// VU c15_scanners: hand-written scanners of CPPPreprocessor over a symbolic byte sequence behind get()/peek():
// scan_escape_sequence (C07 values), scan_quoted, scan_raw, skip_digit_separator, expand_defined_function.
// Bounded in input length (B mode).
#define private public
#define protected public
#include "vu_common.h"
//@headers src/dtoolbase src/dtoolutil src/cppparser
//@shadow filename.h dSearchPath.h
//@hdrsubst cpp*.h except=cppDeclaration.h "from=(?m)^\s*virtual CPP\w+ \*as_\w+\(\);\s*$" to=
//@hdrsubst cpp*.h "from=\bvirtual\s+" to=
// the recursive member std::vector<ExpansionNode> cannot be modelled by the array-based vstl vector (a class containing
// an array of itself); no kernel of this VU touches macro expansion nodes
//@hdrsubst cppManifest.h "from=std::vector<ExpansionNode> _nested;" "to=ExpansionNode *_nested_vu_unused;"
//@hdrsubst cppManifest.h "from=ExpansionNode\(std::vector<ExpansionNode> nested[^;]*;" to=
// default arguments that are class temporaries crash the front end (declaration of CPPManifest::expand, not a kernel)
//@hdrsubst cpp*.h "from= = (vector_string|Ignores|CPPManifest::Ignores|YYSTYPE)\(\)" to=
//@hdrinsert cppPreprocessor.h after="void error(const std::string &message, const YYLTYPE &loc) const;" text="void error__body(const std::string &message, const YYLTYPE &loc) const;"
//@bison src/cppparser/cppBison.yxx cppBison.h
#include "dtoolbase.h"
#include "cppPreprocessor.h"
#include "cppBison.h"
#include <ctype.h>
#include "vstl_globals.h"

#ifndef VU_IN_MAX
#define VU_IN_MAX 6
#endif
// ---- the character source (callee contract in replace form): a byte sequence, then EOF for ever
static unsigned char vin_in[VU_IN_MAX]; static int vin_in_len; static int g_pos; static int g_unget_calls;
int CPPPreprocessor::get() { if (_unget != '\0') { int c = _unget; _unget = '\0'; return c; } if (g_pos < vin_in_len) return vin_in[g_pos++]; return EOF; }
int CPPPreprocessor::peek() { if (_unget != '\0') return _unget; if (g_pos < vin_in_len) return vin_in[g_pos]; return EOF; }
void CPPPreprocessor::unget(int c) { _unget = c; }
static int g_warnings, g_errors;
void CPPPreprocessor::warning(const std::string &message) const { g_warnings++; }
void CPPPreprocessor::warning(const std::string &message, const YYLTYPE &loc) const { g_warnings++; }
void CPPPreprocessor::error(const std::string &message) const { g_errors++; }
void CPPPreprocessor::error(const std::string &message, const YYLTYPE &loc) const { g_errors++; }
CPPFile CPPPreprocessor::get_file() const { static CPPFile f; return f; }
int CPPPreprocessor::get_line_number() const { return 1; }
int CPPPreprocessor::get_col_number() const { return g_pos; }
CPPFile::CPPFile(const Filename &filename, const Filename &filename_as_referenced, Source source) : _source(source), _pragma_once(false) {}
static bool g_defined_answer;
bool CPPPreprocessor::is_manifest_defined(const std::string &manifest_name) const { return g_defined_answer; }

//@extract src/cppparser/cppPreprocessor.cxx hex_val
//@extract src/cppparser/cppPreprocessor.cxx CPPPreprocessor::scan_escape_sequence
//@extract src/cppparser/cppPreprocessor.cxx CPPPreprocessor::scan_quoted
//@extract src/cppparser/cppPreprocessor.cxx CPPPreprocessor::scan_raw
//@extract src/cppparser/cppPreprocessor.cxx CPPPreprocessor::skip_digit_separator
//@extract src/cppparser/cppPreprocessor.cxx CPPPreprocessor::skip_c_comment
//@extract src/cppparser/cppPreprocessor.cxx CPPPreprocessor::skip_cpp_comment
//@extract src/cppparser/cppPreprocessor.cxx CPPPreprocessor::get_preprocessor_command
//@extract src/cppparser/cppPreprocessor.cxx CPPPreprocessor::expand_defined_function
std::ostream &indent(std::ostream &out, int indent_level) { return out; }
int CPPPreprocessor::get_file_depth() const { return 0; }
void CPPPreprocessor::show_line(const YYLTYPE &loc) const {}
bool CPPFile::empty() const { return _filename.empty(); }
//@extract src/cppparser/cppPreprocessor.cxx CPPPreprocessor::error ordinal=1 rename=__body "elide1=    show_line\(loc\);.*?(?=    if \(_error_abort\))"

static CPPPreprocessor *make_pp() { CPPPreprocessor *pp = VU_NEW(CPPPreprocessor); pp->_unget = '\0'; return pp; }
static void make_input() {
  vin_in_len = nondet_int(); __CPROVER_assume(vin_in_len >= 0 && vin_in_len <= VU_IN_MAX);
  for (int i = 0; i < VU_IN_MAX; i++) vin_in[i] = (unsigned char)nondet_char();
  g_pos = 0;
}
static bool is_oct(int c) { return c >= '0' && c <= '7'; }
static int hexv(int c) { return (c >= '0' && c <= '9') ? c - '0' : (c >= 'a' && c <= 'f') ? c - 'a' + 10 : c - 'A' + 10; }

// ---- scan_escape_sequence: the value of the character escape is the C++ value ([lex.ccon])
void h_scan_escape_sequence() {
  make_input();
  CPPPreprocessor *pp = make_pp();
  int r = pp->scan_escape_sequence('\\');
  int c0 = vin_in_len > 0 ? vin_in[0] : -1, c1 = vin_in_len > 1 ? vin_in[1] : -1, c2 = vin_in_len > 2 ? vin_in[2] : -1;
  int want = c0, used = 1;
  switch (c0) {
  case 'a': want = 7; break; case 'b': want = 8; break; case 'f': want = 12; break; case 'n': want = 10; break;
  case 'r': want = 13; break; case 't': want = 9; break; case 'v': want = 11; break; case 'e': want = 27; break;
  default:
    if (is_oct(c0)) { want = c0 - '0'; if (is_oct(c1)) { want = want * 8 + (c1 - '0'); used = 2; if (is_oct(c2)) { want = want * 8 + (c2 - '0'); used = 3; } } }
    break;
  }
  if (c0 == 'x') {
    // \xH and \xHH (longer hex escapes would not fit a char anyway)
    if (isxdigit(c1)) { want = hexv(c1); used = 2; if (isxdigit(c2)) { want = want * 16 + hexv(c2); used = 3; } OBL(r == want, "C07.scan_escape_sequence: a hexadecimal escape has the value of its digits"); }
  } else if (c0 >= 0) {
    OBL(r == want, "C07.scan_escape_sequence: simple and octal escapes have the value C++ assigns to them");
    OBL(g_pos == used, "C07.scan_escape_sequence: exactly the characters of the escape are consumed");
  }
  VU_REACHED();
}

// ---- scan_quoted / scan_raw / skip_digit_separator: any byte sequence, no std::string precondition violated
void h_scan_quoted() {
  make_input();
  CPPPreprocessor *pp = make_pp();
  std::string s = pp->scan_quoted(nondet_bool() ? '"' : '\'');
  OBL(s._n <= (size_t)vin_in_len, "C15.scan_quoted: the literal is no longer than the input");
  VU_REACHED();
}
void h_scan_raw() {
  make_input();
#ifdef KF_C15_SCAN_RAW_SHORT
  // known finding class: the closing quote arrives before the string is as long as the delimiter
#endif
  CPPPreprocessor *pp = make_pp();
  std::string s = pp->scan_raw('"');
  OBL(s._n <= (size_t)vin_in_len, "C15.scan_raw: the literal is no longer than the input");
  VU_REACHED();
}
void h_skip_digit_separator() {
  make_input();
  CPPPreprocessor *pp = make_pp();
  int r = pp->skip_digit_separator(pp->peek());
  OBL(r == -1 || (r >= 0 && r <= 255), "C15.skip_digit_separator: returns a character or EOF for any input");
  VU_REACHED();
}

// ---- comments: /* ... is skipped up to and including the first */ (or to the end of input, with a warning); // ... up
// to the end of the line; in both the saving and the non-saving variant, for any bytes, within the input
void h_skip_c_comment() {
  make_input(); __CPROVER_assume(vin_in_len >= 1);
  CPPPreprocessor *pp = make_pp();
  pp->_save_comments = nondet_bool(); pp->_comments._n = 0; pp->_comments._trunc = false;
  g_pos = 1; g_warnings = 0;
  int r = pp->skip_c_comment(vin_in[0]);
  int end = -1;                              // index of the '/' that closes the comment
  for (int k = 0; k + 1 < VU_IN_MAX; k++) if (end < 0 && k + 1 < vin_in_len && vin_in[k] == '*' && vin_in[k + 1] == '/') end = k + 1;
  if (end >= 0) OBL(r == (end + 1 < vin_in_len ? (int)vin_in[end + 1] : EOF) && g_pos == (end + 2 < vin_in_len ? end + 2 : vin_in_len) && g_warnings == 0, "C15.skip_c_comment: the comment ends at the first */ and the character behind it is returned");
  else OBL(r == EOF && g_warnings == 1, "C15.skip_c_comment: an unterminated comment runs to the end of the input and is diagnosed");
  VU_REACHED();
}
void h_skip_cpp_comment() {
  make_input(); __CPROVER_assume(vin_in_len >= 1);
  CPPPreprocessor *pp = make_pp();
  pp->_save_comments = nondet_bool(); pp->_comments._n = 0; pp->_comments._trunc = false; pp->_last_cpp_comment = false;
  g_pos = 1;
  int r = pp->skip_cpp_comment(vin_in[0]);
  int nl = -1;
  for (int k = 0; k < VU_IN_MAX; k++) if (nl < 0 && k < vin_in_len && vin_in[k] == '\n') nl = k;
  OBL(r == (nl >= 0 ? '\n' : EOF) && g_pos == (nl >= 0 ? nl + 1 : vin_in_len), "C15.skip_cpp_comment: the comment ends at the first newline (returned) or at the end of the input");
  VU_REACHED();
}

// ---- a directive line: `#` [blanks] command [blanks] ...: for any bytes the command is the longest run of identifier
// characters and the scanner stops at the first character behind the blanks that follow it (a newline is not a blank)
static bool is_idc(int c) { return (c >= '0' && c <= '9') || (c >= 'a' && c <= 'z') || (c >= 'A' && c <= 'Z') || c == '_'; }
static bool is_blank_not_nl(int c) { return c == ' ' || c == '\t' || c == '\r' || c == '\v' || c == '\f'; }
void h_get_preprocessor_command() {
  make_input(); __CPROVER_assume(vin_in_len >= 1);
  CPPPreprocessor *pp = make_pp();
  g_pos = 1;
  std::string cmd;
  int r = pp->get_preprocessor_command(vin_in[0], cmd);
  __CPROVER_assume(!cmd._trunc);
  int k = 0; for (int i = 0; i < VU_IN_MAX; i++) if (k == i && i < vin_in_len && is_idc(vin_in[i])) k = i + 1;        // length of the identifier run
  int e = k; for (int i = 0; i < VU_IN_MAX; i++) if (i >= k && e == i && i < vin_in_len && is_blank_not_nl(vin_in[i])) e = i + 1;   // behind the blanks
  bool same = cmd._n == (size_t)k; for (int i = 0; i < VU_IN_MAX; i++) if (i < k && cmd._d[i] != (char)vin_in[i]) same = false;
  OBL(same, "C09.get_preprocessor_command: the directive name is the run of identifier characters that follows the #");
  OBL(r == (e < vin_in_len ? (int)vin_in[e] : EOF) && g_pos == (e < vin_in_len ? e + 1 : vin_in_len), "C09.get_preprocessor_command: blanks behind the name are skipped, a newline is not");
  VU_REACHED();
}

// ---- expand_defined_function on any expression text: no out-of-range access; `defined X` / `defined(X)` becomes one digit
void h_expand_defined_function() {
  std::string vin_expr; vin_expr._trunc = false; vin_expr._n = nondet_size_t(); __CPROVER_assume(vin_expr._n <= std::string::CAP);
  for (size_t i = 0; i < std::string::CAP; i++) { char c = nondet_char(); vin_expr._d[i] = (i < vin_expr._n) ? c : (char)0; if (i < vin_expr._n) __CPROVER_assume(c != 0); }
  vin_expr._d[std::string::CAP] = 0;
  size_t vin_q = nondet_size_t(), vin_p = nondet_size_t();
  __CPROVER_assume(vin_q <= vin_p && vin_p <= vin_expr._n);          // as called by expand_manifests: p just behind the word `defined` that starts at q
  g_defined_answer = nondet_bool();
  std::string before = vin_expr.substr(0, vin_q);
  // where the operand of `defined` ends (ISO C 6.10.1: `defined identifier` or `defined ( identifier )`)
  size_t e = vin_p; bool paren = false;
  while (e < vin_expr._n && isspace((unsigned char)vin_expr._d[e])) e++;
  if (e < vin_expr._n && vin_expr._d[e] == '(') { paren = true; e++; while (e < vin_expr._n && isspace((unsigned char)vin_expr._d[e])) e++; }
  while (e < vin_expr._n && (isalnum((unsigned char)vin_expr._d[e]) || vin_expr._d[e] == '_')) e++;
  if (paren) { size_t f = e; while (f < vin_expr._n && isspace((unsigned char)vin_expr._d[f])) f++; if (f < vin_expr._n && vin_expr._d[f] == ')') e = f + 1; else e = f; }
  std::string rest = vin_expr.substr(e);
  CPPPreprocessor *pp = make_pp();
  size_t p = vin_p;
  pp->expand_defined_function(vin_expr, vin_q, p);
  __CPROVER_assume(!vin_expr._trunc);       // a result longer than the model's capacity is outside the bound
  OBL(p == vin_q + 1 && vin_expr._n >= vin_q + 1 && vin_expr._d[vin_q] == (g_defined_answer ? '1' : '0'), "C09.expand_defined_function: defined X is replaced by 1 or 0 according to whether X is defined");
  OBL(vin_expr.substr(0, vin_q) == before, "C09.expand_defined_function: the text in front of the operator is kept");
  OBL(vin_expr.substr(vin_q + 1) == rest, "C09.expand_defined_function: exactly the operand (identifier, or parenthesised identifier) is consumed; the rest of the expression, including a closing parenthesis that belongs to an enclosing group, is kept");
  VU_REACHED();
}

// ---- error(): every error reported outside a nested template-argument parse is counted (the count drives the exit status)
extern "C" void abort(void) { __CPROVER_assume(false); }      // -error-abort: the run ends at once with a signal-free abort message (not the subject here)
void h_error_is_counted() {
  CPPPreprocessor *pp = make_pp();
  int vin_state = nondet_int(); __CPROVER_assume(vin_state >= CPPPreprocessor::S_normal && vin_state <= CPPPreprocessor::S_end_nested);
  pp->_state = (CPPPreprocessor::State)vin_state; pp->_verbose = nondet_int(); pp->_error_abort = false; pp->_infile = 0;
  int before = nondet_int(); __CPROVER_assume(before >= 0 && before < 1000000); pp->_error_count = before;
  YYLTYPE loc; loc.first_line = nondet_int(); loc.first_column = nondet_int(); loc.file._filename._filename._n = 0; loc.file._filename._filename._trunc = false;
  std::string msg("m");
  pp->error__body(msg, loc);
  bool nested = vin_state == CPPPreprocessor::S_nested || vin_state == CPPPreprocessor::S_end_nested;
  OBL(pp->_error_count == (nested ? before : before + 1), "C15.error: an error reported in the normal or end-of-file state is counted (so the run exits non-zero); only errors inside a nested trial parse are deferred");
  VU_REACHED();
}
