"""Native replay for VU c15_scanners: the counterexample bytes are written to a header (behind the token prefix that
leads to the scanner) and fed to the parse_file built from the working tree; a signal exit or a time-out reproduces."""
import os, sys, tempfile, shutil
sys.path.insert(0, os.path.join(os.path.dirname(os.path.realpath(__file__)), "..", "..", "lib"))
import native

PREFIX = {"h_scan_raw": b'const char *s = R"', "h_scan_quoted": b'const char *s = "', "h_scan_escape_sequence": b"char c = '\\",
          "h_skip_digit_separator": b"int x = 1", "h_skip_c_comment": b"#if 0\n/*", "h_skip_cpp_comment": b"//", "h_expand_defined_function": b"#if defined"}


def replay(ctx):
    vin = ctx["vin"]
    try:
        n = int(str(vin.get("vin_in_len", "0")).rstrip("ul"))
    except Exception:
        n = 0
    data = b""
    if ctx["entry"] == "h_expand_defined_function":
        try:
            n = int(str(vin.get("vin_expr._n", "0")).rstrip("ul"))
        except Exception:
            n = 0
        for i in range(n):
            b = vin.get("vin_expr._d[%dl]#bin" % i)
            data += bytes([int(b, 2)]) if b else b"X"
    else:
        for i in range(n):
            b = vin.get("vin_in[%dl]#bin" % i)
            data += bytes([int(b, 2)]) if b else b"a"
    pre = PREFIX.get(ctx["entry"])
    if pre is None:
        return {"reproduced": False, "note": "no replay template for %s" % ctx["entry"]}
    nb = native.NativeBuild(targets=("parse_file",))
    try:
        if not nb.build():
            return {"reproduced": False, "error": "native build failed", "log": nb.log[-1500:]}
        d = tempfile.mkdtemp(prefix="verif-replay-", dir="/var/tmp")
        f = os.path.join(d, "replay.h")
        open(f, "wb").write(pre + data)
        rc, out = native.sh(["timeout", "20", nb.bin("parse_file"), f], stdin=b"")
        shutil.rmtree(d, ignore_errors=True)
        bad = rc < 0 or rc >= 124
        return {"reproduced": bool(bad), "input_bytes": repr(pre + data), "cmd": "parse_file replay.h", "observed": native.describe_exit(rc), "output": out[-500:]}
    finally:
        nb.close()
