// Environment of FunctionRemap::make_wrapper_entry: skeletons of the interrogate-side classes it touches (the database
// record classes are the real ones).  conformance.cpp checks member types and flag values against the real headers.
#ifndef C11_ENV_H
#define C11_ENV_H
class CPPType { public: int _k; };
int __CPROVER_uninterpreted_type_index(CPPType *type);      // uninterpreted function: the database index of a C++ type
class ParameterRemap {
public:
  CPPType *_new, *_temporary; bool _atomic_string, _default_value;
  CPPType *get_new_type() const { return _new; }
  CPPType *get_temporary_type() const { return _temporary; }
  bool has_default_value() const { return _default_value; }
  bool new_type_is_atomic_string() { return _atomic_string; }
};
class CPPCommentBlock { public: std::string _comment; };
class CPPAttributeList { public: bool _deprecated; bool has_attribute(const std::string &name) const { return _deprecated; } };
class CPPInstance { public: CPPCommentBlock *_leading_comment; CPPAttributeList _attributes; };
class InterrogateBuilder {
public:
  // callee contracts: the type index of a C++ type is a function of the type; the atomic string type has its own index
  TypeIndex get_type(CPPType *type, bool global) { return __CPROVER_uninterpreted_type_index(type); }
  TypeIndex get_atomic_string_type() { return -7; }
  static std::string trim_blanks(const std::string &str) { return str; }
};
extern InterrogateBuilder builder;
extern bool output_function_names;
class FunctionRemap {
public:
  class Parameter { public: bool _has_name; std::string _name; ParameterRemap *_remap; };
  enum Flags { F_getitem = 0x0001, F_copy_constructor = 0x0100, F_coerce_constructor = 0x1000 };
  typedef std::vector<Parameter> Parameters;
  FunctionWrapperIndex make_wrapper_entry(FunctionIndex function_index);
  Parameters _parameters; ParameterRemap *_return_type; bool _void_return; bool _has_this; bool _extension; int _flags;
  std::string _unique_name, _wrapper_name; FunctionWrapperIndex _wrapper_index;
  bool _return_value_needs_management; FunctionIndex _return_value_destructor;
  CPPInstance *_cppfunc;
};
#endif
