// VU c11_wrapper_entry: FunctionRemap::make_wrapper_entry.  The wrapper record written to the database describes the
// wrapper that is emitted: its return type and parameter types are the remapped ("new") types the generated function
// really has, its flags mirror the remap, and it is stored under the index it returns.
#define private public
#define protected public
#include "vu_common.h"
//@headers src/dtoolbase src/interrogatedb
//@shadow config_interrogatedb.h indent.h
//@truncate interrogateDatabase.I from=src/interrogatedb/interrogateDatabase.I anchor="lookup_type_by_name(const"
#include "interrogateDatabase.h"
#include "interrogateFunctionWrapper.h"
#include "vstl_globals.h"
#include "env.h"
std::string InterrogateComponent::_empty_string;
InterrogateBuilder builder; bool output_function_names;
// ---- callees (contracts in replace form): the database hands out the next free index and stores the record
static InterrogateDatabase *g_dbp; static int vin_next_index; static int g_add_calls; static FunctionWrapperIndex g_added_index; static InterrogateFunctionWrapper g_added;
InterrogateDatabase *InterrogateDatabase::get_ptr() { return g_dbp; }
int InterrogateDatabase::get_next_index() { return vin_next_index; }
void InterrogateDatabase::add_wrapper(FunctionWrapperIndex index, const InterrogateFunctionWrapper &wrapper) { g_add_calls++; g_added_index = index; g_added = wrapper; }
//@extract src/interrogate/functionRemap.cxx FunctionRemap::make_wrapper_entry

static FunctionRemap g_remap; static ParameterRemap g_ret, g_pr[2]; static CPPInstance g_func; static CPPCommentBlock g_comment;
static CPPType g_types[6];
static void any_remap(ParameterRemap &r, int k) { r._new = &g_types[2 * k]; r._temporary = &g_types[2 * k + 1]; r._atomic_string = nondet_bool(); r._default_value = nondet_bool(); }
void h_make_wrapper_entry() {
  g_dbp = (InterrogateDatabase *)vu_alloc(8);
  vin_next_index = nondet_int(); g_add_calls = 0;
  any_remap(g_ret, 0); any_remap(g_pr[0], 1); any_remap(g_pr[1], 2);
  // distinct C++ types have distinct indices (get_type is injective on the types at hand)
  for (int i = 0; i < 6; i++) for (int j = 0; j < 6; j++) if (i != j) __CPROVER_assume(__CPROVER_uninterpreted_type_index(&g_types[i]) != __CPROVER_uninterpreted_type_index(&g_types[j]));
  for (int i = 0; i < 6; i++) __CPROVER_assume(__CPROVER_uninterpreted_type_index(&g_types[i]) > 0);
  size_t vin_nparams = nondet_size_t(); __CPROVER_assume(vin_nparams <= 2);
  g_remap._parameters._n = vin_nparams; g_remap._parameters._trunc = false;
  for (int i = 0; i < 2; i++) { g_remap._parameters._d[i]._remap = &g_pr[i]; g_remap._parameters._d[i]._has_name = nondet_bool(); }
  g_remap._return_type = &g_ret; g_remap._void_return = nondet_bool(); g_remap._has_this = nondet_bool(); __CPROVER_assume(!g_remap._has_this || vin_nparams >= 1);
  g_remap._extension = nondet_bool(); g_remap._flags = nondet_int();
  g_remap._return_value_needs_management = nondet_bool(); g_remap._return_value_destructor = nondet_int();
  g_func._leading_comment = nondet_bool() ? &g_comment : (CPPCommentBlock *)0; g_func._attributes._deprecated = nondet_bool(); g_remap._cppfunc = &g_func;
  output_function_names = nondet_bool();
  int vin_function = nondet_int();
  FunctionWrapperIndex r = g_remap.make_wrapper_entry(vin_function);
  OBL(r == vin_next_index && g_add_calls == 1 && g_added_index == r && g_remap._wrapper_index == r, "C11.make_wrapper_entry: the record is stored once, under the fresh index that is returned and kept in the remap");
  OBL(g_added._function == vin_function, "C11.make_wrapper_entry: the record names the function it wraps");
  OBL(g_added._return_type == (g_ret._atomic_string ? -7 : __CPROVER_uninterpreted_type_index(g_ret._new)), "C11.make_wrapper_entry: the recorded return type is the type the emitted wrapper returns (the remapped type, not a temporary's), or the atomic string type");
  OBL(g_added._parameters._n == vin_nparams, "C11.make_wrapper_entry: one parameter record per wrapper parameter");
  for (int i = 0; i < 2; i++) if ((size_t)i < vin_nparams) {
    OBL(g_added._parameters._d[i]._type == (g_pr[i]._atomic_string ? -7 : __CPROVER_uninterpreted_type_index(g_pr[i]._new)), "C11.make_wrapper_entry: each recorded parameter type is the remapped type of that parameter");
    OBL(((g_added._parameters._d[i]._parameter_flags & InterrogateFunctionWrapper::PF_is_optional) != 0) == g_pr[i]._default_value && ((g_added._parameters._d[i]._parameter_flags & InterrogateFunctionWrapper::PF_is_this) != 0) == (g_remap._has_this && i == 0), "C11.make_wrapper_entry: optional and this flags mirror the remap");
  }
  OBL(((g_added._flags & InterrogateFunctionWrapper::F_has_return) != 0) == !g_remap._void_return && ((g_added._flags & InterrogateFunctionWrapper::F_caller_manages) != 0) == g_remap._return_value_needs_management, "C11.make_wrapper_entry: has-return and caller-manages mirror the remap");
  VU_REACHED();
}
