// Native conformance check of the skeletons used by VU c11_wrapper_entry.
#include "functionRemap.h"
#include "parameterRemap.h"
#include "interrogateBuilder.h"
#include "cppInstance.h"
#include "cppCommentBlock.h"
#include <type_traits>
static_assert(std::is_same<decltype(FunctionRemap::_return_type), ParameterRemap *>::value, "_return_type");
static_assert(std::is_same<decltype(FunctionRemap::_parameters), std::vector<FunctionRemap::Parameter> >::value, "_parameters");
static_assert(std::is_same<decltype(FunctionRemap::Parameter::_remap), ParameterRemap *>::value, "Parameter::_remap");
static_assert(std::is_same<decltype(FunctionRemap::_wrapper_index), FunctionWrapperIndex>::value, "_wrapper_index");
static_assert(std::is_same<decltype(FunctionRemap::_return_value_destructor), FunctionIndex>::value, "_return_value_destructor");
static_assert((int)FunctionRemap::F_copy_constructor == 0x0100 && (int)FunctionRemap::F_coerce_constructor == 0x1000, "FunctionRemap flags");
static_assert(std::is_same<decltype(&ParameterRemap::get_new_type), CPPType *(ParameterRemap::*)() const>::value, "get_new_type");
static_assert(std::is_same<decltype(&ParameterRemap::get_temporary_type), CPPType *(ParameterRemap::*)() const>::value, "get_temporary_type");
static_assert(std::is_same<decltype(&ParameterRemap::new_type_is_atomic_string), bool (ParameterRemap::*)()>::value, "new_type_is_atomic_string");
static_assert(std::is_same<decltype(&InterrogateBuilder::get_type), TypeIndex (InterrogateBuilder::*)(CPPType *, bool)>::value, "get_type");
static_assert(std::is_same<decltype(&InterrogateBuilder::get_atomic_string_type), TypeIndex (InterrogateBuilder::*)()>::value, "get_atomic_string_type");
static_assert(std::is_same<decltype(&FunctionRemap::make_wrapper_entry), FunctionWrapperIndex (FunctionRemap::*)(FunctionIndex)>::value, "make_wrapper_entry");
int main() { return 0; }
