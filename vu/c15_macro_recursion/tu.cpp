// VU c15_macro_recursion: CPPPreprocessor::push_expansion and should_ignore_manifest.  Token-level macro expansion is the
// recursion get_identifier -> expand_manifest -> push_expansion -> internal_get_next_token -> get_identifier; its only
// bound is that a macro which is being expanded is refused inside its own replacement text ([cpp.rescan]).  The contract
// checked here is that bound: after push_expansion(text, m) the macro m is ignored until its expansion has been read.
#define private public
#define protected public
#include "vu_common.h"
//@headers src/dtoolbase src/dtoolutil src/cppparser
//@shadow filename.h dSearchPath.h
//@hdrsubst cpp*.h except=cppDeclaration.h "from=(?m)^\s*virtual CPP\w+ \*as_\w+\(\);\s*$" to=
//@hdrsubst cpp*.h "from=\bvirtual\s+" to=
// the recursive member std::vector<ExpansionNode> cannot be modelled by the array-based vstl vector (a class containing
// an array of itself); no kernel of this VU touches macro expansion nodes
//@hdrsubst cppManifest.h "from=std::vector<ExpansionNode> _nested;" "to=ExpansionNode *_nested_vu_unused;"
//@hdrsubst cppManifest.h "from=ExpansionNode\(std::vector<ExpansionNode> nested[^;]*;" to=
// default arguments that are class temporaries crash the front end (declaration of CPPManifest::expand, not a kernel)
//@hdrsubst cpp*.h "from= = (vector_string|Ignores|CPPManifest::Ignores|YYSTYPE)\(\)" to=
// R20: the member std::vector<CPPToken> (CPPToken has no default constructor; the array-based vector needs one) is not
// touched by this kernel and becomes a pointer, so that a TYPED CPPPreprocessor object can be built by the real constructor
//@hdrsubst cppPreprocessor.h "from=std::vector<CPPToken> _saved_tokens;" "to=CPPToken *_saved_tokens_vu_unused;"
// R21: when a class has a member whose type (or pointee type) declares a destructor, the front end rejects assigning a
// `const CPPManifest *` to the member `const CPPManifest *_manifest` ("invalid implicit conversion ... to CPPManifest *").
// In the header copy the member is declared `const void *`: assignment from and comparison with a `const CPPManifest *`
// mean the same (the kernels only store and compare the pointer)
//@hdrsubst cppPreprocessor.h "from=const CPPManifest \*_manifest;" "to=const void *_manifest;"
//@bison src/cppparser/cppBison.yxx cppBison.h
#include "dtoolbase.h"
#include "cppPreprocessor.h"
#include "cppBison.h"
#include <ctype.h>
#include "vstl_globals.h"


CPPFile::CPPFile(const Filename &filename, const Filename &filename_as_referenced, Source source) : _source(source), _pragma_once(false) {}
// callees (replace form): the expansion text is attached to a string stream (can fail)
static bool g_connect_ok;
bool CPPPreprocessor::InputFile::connect_input(const std::string &input) { return g_connect_ok; }
CPPPreprocessor::InputFile::~InputFile() {}
//@extract src/cppparser/cppPreprocessor.cxx CPPPreprocessor::InputFile::InputFile
//@extract src/cppparser/cppPreprocessor.cxx CPPPreprocessor::CPPPreprocessor
//@extract src/cppparser/cppPreprocessor.cxx CPPPreprocessor::push_expansion
//@extract src/cppparser/cppPreprocessor.cxx CPPPreprocessor::should_ignore_manifest
// expand_manifest: its callees other than push_expansion are replaced by their contracts
void CPPPreprocessor::extract_manifest_args(const std::string &name, int num_args, int va_arg, vector_string &args) {}
std::string CPPManifest::expand(const vector_string &args, bool expand_undefined, const Ignores &ignores) const { std::string r; r += 'e'; return r; }
static int g_next_token_calls;
CPPToken::CPPToken(int token, int line_number, int col_number, const CPPFile &file, const std::string &str, const YYSTYPE &lval) : _token(token) {}
CPPToken CPPPreprocessor::internal_get_next_token() { g_next_token_calls++; static CPPFile f; static std::string s; static YYSTYPE y; return CPPToken(0, 0, 0, f, s, y); }
static void vu_force_instantiation() { std::vector<CPPAttributeList::Attribute> a; std::vector<CPPAttributeList::Attribute> b(a); }
//@extract src/cppparser/cppPreprocessor.cxx CPPPreprocessor::expand_manifest r15 "subst1=@ignores\.insert\(infile->_manifest\)@ignores.insert((const CPPManifest *)infile->_manifest)@"

static CPPPreprocessor g_pp_obj;
static CPPPreprocessor::InputFile g_outer[2];
void h_macro_under_expansion_is_ignored() {
  // the input stack before the expansion: up to two files or expansions of arbitrary other state
  int vin_depth = nondet_int(); __CPROVER_assume(vin_depth >= 0 && vin_depth <= 2);
  CPPManifest *m = (CPPManifest *)vu_alloc(sizeof(CPPManifest));
  CPPManifest *other = (CPPManifest *)vu_alloc(sizeof(CPPManifest));
  m->_has_parameters = nondet_bool();
#ifdef KF_C15_FUNCTION_MACRO_RECURSION
  __CPROVER_assume(!m->_has_parameters);     // known finding: function-like macros are exempted from the bound
#endif
  for (int i = 0; i < 2; i++) { g_outer[i]._manifest = nondet_bool() ? other : (CPPManifest *)0; g_outer[i]._ignore_manifest = nondet_bool(); g_outer[i]._parent = (i + 1 < vin_depth) ? &g_outer[i + 1] : (CPPPreprocessor::InputFile *)0; }
  g_pp_obj._infile = vin_depth > 0 ? &g_outer[0] : (CPPPreprocessor::InputFile *)0;
  CPPPreprocessor::InputFile *before = g_pp_obj._infile;
  bool ignored_other_before = g_pp_obj.should_ignore_manifest(other);
  g_connect_ok = nondet_bool();
  std::string vin_text("x"); YYLTYPE loc; loc.first_line = nondet_int(); loc.first_column = nondet_int();
  bool pushed = g_pp_obj.push_expansion(vin_text, m, loc);
  if (pushed) {
    OBL(g_pp_obj._infile != 0 && g_pp_obj._infile != before && g_pp_obj._infile->_parent == before && g_pp_obj._infile->_manifest == m, "C15.push_expansion: the expansion is pushed on top of the input stack and names its macro");
    OBL(g_pp_obj.should_ignore_manifest(m), "C15.macro_expansion: a macro is not expanded again inside its own replacement text (the recursion get_identifier -> expand_manifest -> internal_get_next_token has no other bound)");
  } else {
    OBL(g_pp_obj._infile == before, "C15.push_expansion: a failed push leaves the input stack as it was");
  }
  OBL(g_pp_obj.should_ignore_manifest(other) == ignored_other_before, "C15.push_expansion: macros of enclosing expansions stay ignored, no other macro becomes ignored");
  VU_REACHED();
}

// ---- the text a macro expands to is attributed to the place where the macro is USED (the file being read), not to the
// file that defined the macro: whether a declaration is the user's own is decided by the file it stands in
void h_expansion_is_attributed_to_the_use() {
  CPPManifest *m = (CPPManifest *)vu_alloc(sizeof(CPPManifest));
  m->_has_parameters = nondet_bool(); m->_num_parameters = 0; m->_variadic_param = -1;
  m->_loc.file._source = CPPFile::S_system;            // the macro was defined in a system header ...
  YYLTYPE use; use.file._source = CPPFile::S_local; use.first_line = nondet_int(); use.first_column = nondet_int();   // ... and is used in the user's file
  g_pp_obj._infile = 0; g_connect_ok = true; g_next_token_calls = 0;
  g_pp_obj.expand_manifest(m, use);
  OBL(g_pp_obj._infile != 0 && g_pp_obj._infile->_file._source == CPPFile::S_local && g_pp_obj._infile->_line_number == use.first_line, "C04.expand_manifest: the expansion of a macro is read as part of the file (and line) that uses the macro, whatever file defined it");
  OBL(g_next_token_calls == 1, "C04.expand_manifest: the next token is then read from the expansion");
  VU_REACHED();
}
