"""Native replay for VU c15_macro_recursion: the failed obligation says a macro can be expanded again inside its own
replacement text.  The witnesses (self-referential macros, object-like and function-like) are fed to the parse_file built
from the working tree; a signal (stack overflow) or a time-out reproduces."""
import os, sys, tempfile, shutil
sys.path.insert(0, os.path.join(os.path.dirname(os.path.realpath(__file__)), "..", "..", "lib"))
import native

WITNESSES = {"object-like": b"#define F F + 1\nint a = F;\n",
             "function-like": b"#define F(x) F(x) + 1\nint a = F(1);\n",
             "function-like, mutual": b"#define G(x) H(x)\n#define H(x) G(x)\nint a = G(1);\n"}


def replay(ctx):
    fn = str(ctx["vin"].get("m->_has_parameters", "")).upper().startswith("T")
    nb = native.NativeBuild(targets=("parse_file",))
    try:
        if not nb.build():
            return {"reproduced": False, "error": "native build failed", "log": nb.log[-1500:]}
        d = tempfile.mkdtemp(prefix="verif-replay-", dir="/var/tmp")
        seen = []
        for name, w in WITNESSES.items():
            f = os.path.join(d, "replay.h")
            open(f, "wb").write(w)
            rc, out = native.sh(["timeout", "20", nb.bin("parse_file"), f], stdin=b"")
            if rc < 0 or rc >= 124:
                seen.append("%s %r: %s" % (name, w, native.describe_exit(rc)))
        shutil.rmtree(d, ignore_errors=True)
        return {"reproduced": bool(seen), "input": {k: repr(v) for k, v in WITNESSES.items()}, "cmd": "parse_file replay.h",
                "observed": "; ".join(seen) or "all witnesses end normally", "counterexample_is_function_like": fn}
    finally:
        nb.close()
