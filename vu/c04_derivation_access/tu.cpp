// VU c04_derivation_access: CPPStructType::append_derivation.  The access of a base class written without access-specifier is
// private when the DERIVED class is declared with `class` and public when it is declared with `struct` ([class.access.base]);
// interrogate inherits the published members of a base into the derived class's interface only through public bases.
#define private public
#define protected public
#include "vu_common.h"
//@headers src/dtoolbase src/dtoolutil src/cppparser
//@shadow filename.h dSearchPath.h
//@hdrsubst cpp*.h except=cppDeclaration.h "from=(?m)^\s*virtual CPP\w+ \*as_\w+\(\);\s*$" to=
//@hdrsubst cpp*.h "from=\bvirtual\s+" to=
// the recursive member std::vector<ExpansionNode> cannot be modelled by the array-based vstl vector (a class containing
// an array of itself); no kernel of this VU touches macro expansion nodes
//@hdrsubst cppManifest.h "from=std::vector<ExpansionNode> _nested;" "to=ExpansionNode *_nested_vu_unused;"
//@hdrsubst cppManifest.h "from=ExpansionNode\(std::vector<ExpansionNode> nested[^;]*;" to=
// default arguments that are class temporaries crash the front end (declaration of CPPManifest::expand, not a kernel)
//@hdrsubst cpp*.h "from= = (vector_string|Ignores|CPPManifest::Ignores|YYSTYPE)\(\)" to=
//@bison src/cppparser/cppBison.yxx cppBison.h
#include "dtoolbase.h"
#include "cppStructType.h"
#include "cppScope.h"
#include "cppInstance.h"
#include "cppFunctionGroup.h"
#include "cppBison.h"
#include <ctype.h>
#include "vstl_globals.h"


#include "cppTypedefType.h"
#include "cppExtensionType.h"
static CPPType *g_base_type; static bool vin_base_is_extension; static int vin_base_key;
static CPPTypedefType *vu_as_typedef_type(CPPType *t) { return (CPPTypedefType *)0; }
static CPPExtensionType *vu_as_extension_type(CPPType *t) { if (!vin_base_is_extension) return (CPPExtensionType *)0; CPPExtensionType *e = VU_NEW(CPPExtensionType); e->_type = (CPPExtensionType::Type)vin_base_key; return e; }
//@extract src/cppparser/cppStructType.cxx CPPStructType::append_derivation "subst1=@base->as_typedef_type\(\)@vu_as_typedef_type(base)@" "osubst2=@base->as_extension_type\(\)@vu_as_extension_type(base)@"

void h_append_derivation() {
  CPPStructType *self = VU_NEW(CPPStructType);
  self->_derivation._n = 0; self->_derivation._trunc = false;
  int vin_own_key = nondet_int(); __CPROVER_assume(vin_own_key == CPPExtensionType::T_class || vin_own_key == CPPExtensionType::T_struct);
  self->_type = (CPPExtensionType::Type)vin_own_key;
  vin_base_is_extension = true;     // a class, struct or union named as the base
  vin_base_key = nondet_int(); __CPROVER_assume(vin_base_key == CPPExtensionType::T_class || vin_base_key == CPPExtensionType::T_struct);
  g_base_type = (CPPType *)vu_alloc(8);
  int vin_vis = nondet_int(); __CPROVER_assume(vin_vis == V_unknown || vin_vis == V_public || vin_vis == V_protected || vin_vis == V_private);
  bool vin_virtual = nondet_bool();
  self->append_derivation(g_base_type, (CPPVisibility)vin_vis, vin_virtual);
  OBL(self->_derivation._n == 1 && self->_derivation._d[0]._base == g_base_type && self->_derivation._d[0]._is_virtual == vin_virtual, "C04.append_derivation: the base is recorded as written");
  CPPVisibility want = vin_vis != V_unknown ? (CPPVisibility)vin_vis : (vin_own_key == CPPExtensionType::T_class ? V_private : V_public);
  OBL(self->_derivation._d[0]._vis == want, "C04.append_derivation: a base written without access-specifier is private when the derived class is a `class` and public when it is a `struct`, whatever the class-key of the base (class D : StructBase {} inherits privately)");
  VU_REACHED();
}
