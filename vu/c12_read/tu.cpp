// VU c12_read: InterrogateDatabase::read.  A database file is parsed into a temporary database and merged only when it
// was read completely and its index range fits: a file that fails to read (truncated) or is out of date leaves this
// database exactly as it was ("never half-merged").
#define private public
#define protected public
#include "vu_common.h"
//@headers src/dtoolbase src/interrogatedb
//@shadow config_interrogatedb.h indent.h
//@truncate interrogateDatabase.I from=src/interrogatedb/interrogateDatabase.I anchor="lookup_type_by_name(const"
#include "interrogateDatabase.h"
#include "config_interrogatedb.h"
#include "vstl_globals.h"

int InterrogateDatabase::_file_major_version = 0;
int InterrogateDatabase::_file_minor_version = 0;
int InterrogateDatabase::_current_major_version = 3;
int InterrogateDatabase::_current_minor_version = 3;
DSearchPath interrogatedb_path;
std::string InterrogateComponent::_empty_string;

//@extract src/interrogatedb/interrogateType.cxx InterrogateType::InterrogateType ordinal=0
//@extract src/interrogatedb/interrogateFunction.cxx InterrogateFunction::InterrogateFunction ordinal=0
//@extract src/interrogatedb/interrogateDatabase.cxx InterrogateDatabase::InterrogateDatabase
//@extract src/interrogatedb/interrogateDatabase.cxx InterrogateDatabase::read

// ---- callees (contracts in replace form).  Ghost: which database objects were written to
static InterrogateDatabase g_db;
static bool g_this_written; static int g_read_new_calls, g_remap_calls, g_merge_calls; static const InterrogateDatabase *g_read_into, *g_merged_from;
static bool vin_read_ok; static int vin_next_after_remap;
bool InterrogateDatabase::read_new(std::istream &in, InterrogateModuleDef *def) {
  // parses records into its receiver, as far as the file goes; false when the file ends early or is malformed
  g_read_new_calls++; g_read_into = this; if (this == &g_db) g_this_written = true; return vin_read_ok;
}
int InterrogateDatabase::remap_indices(int first_index) { g_remap_calls++; if (this == &g_db) g_this_written = true; return vin_next_after_remap; }
void InterrogateDatabase::merge_from(const InterrogateDatabase &other) { g_merge_calls++; g_merged_from = &other; }

static InterrogateModuleDef g_def; static std::istream g_in;
void h_read_is_atomic() {
  vin_read_ok = nondet_bool(); vin_next_after_remap = nondet_int();
  g_def.first_index = nondet_int(); g_def.next_index = nondet_int(); g_def.database_filename = "f.in";
  int vin_next = nondet_int(); g_db._next_index = vin_next;
  g_this_written = false; g_read_new_calls = g_remap_calls = g_merge_calls = 0;
  bool ok = g_db.read(g_in, &g_def);
  bool no_range = g_def.first_index == 0 && g_def.next_index == 0;
  bool fits = no_range || vin_next_after_remap == g_def.next_index;
  OBL(ok == (vin_read_ok && fits), "C12.read: a file is accepted exactly if it was read completely and, for a module with a fixed index range, fills exactly that range");
  OBL(g_read_new_calls == 1 && g_read_into != &g_db, "C12.read: the file is parsed into a temporary database, never into this one");
  if (!ok) OBL(!g_this_written && g_merge_calls == 0 && g_db._next_index == vin_next, "C12.read: a file that fails to read or is out of date leaves this database exactly as it was (never half-merged)");
  else OBL(g_merge_calls == 1 && g_merged_from == g_read_into && !g_this_written && g_db._next_index == (no_range ? vin_next_after_remap : vin_next), "C12.read: an accepted file is merged once, from the temporary database, after its indices were moved behind those already used");
  VU_REACHED();
}
