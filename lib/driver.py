#!/usr/bin/env python3
"""Driver: runs the verification units (VUs) of one property with CBMC and writes the evidence.

exit 0  every obligation discharged (KNOWN-FINDING lines possible)
exit 1  an obligation was refuted:  VIOLATION property=<id> replay=<path> [no-failing-input-found]
exit 2  undecided (time-out, memory-out, extraction / front-end failure, lost canary); never a violation
"""
import argparse
import concurrent.futures as cf
import glob
import hashlib
import importlib.util
import json
import os
import re
import shlex
import shutil
import subprocess
import sys
import time

HERE = os.path.dirname(os.path.abspath(__file__))
VERIF = os.path.dirname(HERE)
REPO = os.environ.get("VERIF_REPO", "/repo")
OUTROOT = os.environ.get("VERIF_OUT", VERIF)      # evidence/ and replays/ go here (seed runs redirect it)
sys.path.insert(0, HERE)
import extract as X  # noqa: E402

MEM_KB = 16 * 1024 * 1024
DEFAULT_CHECKS = ["--no-standard-checks", "--bounds-check", "--pointer-check", "--div-by-zero-check",
                  "--pointer-primitive-check"]


class Undecided(Exception):
    def __init__(self, reason, detail=""):
        Exception.__init__(self, reason)
        self.reason = reason
        self.detail = detail


def _mem_total_gb():
    try:
        for l in open("/proc/meminfo"):
            if l.startswith("MemTotal:"):
                return int(l.split()[1]) // (1024 * 1024)
    except Exception:
        pass
    return 16


# entries of units marked "heavy" (several GB of solver memory each) never run more than HEAVY_SLOTS at a time, so that
# 16 parallel jobs cannot exhaust the machine (an exhausted machine shows up as obligations with status ERROR: exit 2)
import threading
HEAVY_SLOTS = max(2, _mem_total_gb() // 12)        # a heavy entry is cbmc (about 5 GB) plus kissat (about 4 GB)
HEAVY = threading.BoundedSemaphore(HEAVY_SLOTS)


def run(cmd, cwd=None, timeout=600, mem_kb=MEM_KB, env=None):
    t0 = time.time()
    pre = "ulimit -v %d; " % mem_kb
    try:
        # temporary files of cbmc (the CNF handed to the external SAT solver: gigabytes for the large entries) go to the
        # work directory, which is removed at the end of the run - also when a solver was killed and left its file behind
        if env is None and cwd:
            env = dict(os.environ, TMPDIR=cwd)
        p = subprocess.run(["bash", "-c", pre + "exec " + " ".join(shlex.quote(c) for c in cmd)],
                           cwd=cwd, stdin=subprocess.DEVNULL, stdout=subprocess.PIPE, stderr=subprocess.PIPE,
                           timeout=timeout, env=env)
        return p.returncode, p.stdout.decode("utf-8", "replace"), p.stderr.decode("utf-8", "replace"), time.time() - t0
    except subprocess.TimeoutExpired as e:
        out = (e.stdout or b"").decode("utf-8", "replace")
        return -9, out, "TIMEOUT after %ss" % timeout, time.time() - t0


# ------------------------------------------------------------------ TU generation

DIRECTIVE = re.compile(r'^//@(\w+)\s+(.*)$')


def parse_kv(rest):
    toks = shlex.split(rest)
    pos, kv = [], {}
    for t in toks:
        if '=' in t and re.match(r'^\w+=', t):
            k, v = t.split('=', 1)
            kv[k] = v
        else:
            pos.append(t)
    return pos, kv


def copy_headers(srcdirs, hdr, log, r2_types):
    n_r2 = 0
    for d in srcdirs:
        full = os.path.join(REPO, d)
        files = sorted(glob.glob(full + "/*.h") + glob.glob(full + "/*.I"))
        if not files:
            raise Undecided("extraction", "no headers in %s" % full)
        for f in files:
            t = open(f, encoding="utf-8", errors="replace").read()
            t2, k = X.rule_r2_text(t, r2_types)
            n_r2 += k
            # keep line numbers pointing at /repo
            with open(os.path.join(hdr, os.path.basename(f)), "w") as o:
                o.write('#line 1 "%s"\n' % f)
                o.write(t2)
    log["rewrites"].append("R2 applied %d times over copied headers of %s" % (n_r2, ",".join(srcdirs)))
    return n_r2


TYPEDEF_RX = re.compile(r'typedef\s+((?:std::)?(?:map|vector|set|pair|unordered_map|unordered_set|list|deque|multimap|multiset)\s*<[^;]+>)\s+(\w+)\s*;')


def typedef_table(hdr, extra=()):
    """name -> set of targets, and (class, name) -> target, for typedefs of std container instantiations in the headers"""
    tab, qual = {}, {}
    for f in sorted(glob.glob(hdr + "/*.h")) + [x for x in extra if os.path.exists(x)]:
        txt = open(f, errors="replace").read()
        classes = [(m.start(), m.group(1)) for m in re.finditer(r'\bclass\s+(?:EXPCL_\w+\s+)?(\w+)\b[^;{]*\{', X.blank(txt))]
        for m in TYPEDEF_RX.finditer(txt):
            tgt = re.sub(r'\s+', ' ', m.group(1))
            tab.setdefault(m.group(2), set()).add(tgt)
            cls = [c for pos, c in classes if pos < m.start()]
            if cls:
                qual[(cls[-1], m.group(2))] = tgt
    return tab, qual


def rule_r7(e, tabs):
    """R7: CBMC cannot use a typedef of a template instantiation as a scope (`TypeMap::iterator`):
    expand the typedef name textually to its target, taken from the class headers."""
    tab, qual = tabs
    n = 0
    suffix = r'\s*::(?=\s*(?:const_)?(?:reverse_)?iterator|\s*value_type|\s*size_type)'
    def std(tgt):
        return tgt if tgt.startswith("std::") else "std::" + tgt
    # qualified uses first: Class::Name::iterator
    for (cls, name), tgt in sorted(qual.items()):
        rx = re.compile(r'(?<![\w:])' + cls + r'\s*::\s*' + name + suffix)
        e.text, k = rx.subn(std(tgt) + "::", e.text)
        n += k
    for name in sorted(tab):
        rx = re.compile(r'(?<![\w:])' + name + suffix)
        if not rx.search(e.text):
            continue
        if len(tab[name]) != 1:
            raise X.ExtractionError("R7: typedef %s is ambiguous (%s)" % (name, sorted(tab[name])))
        e.text, k = rx.subn(std(list(tab[name])[0]) + "::", e.text)
        n += k
    if n:
        e.rewrites.append("R7 typedef-as-scope expanded x%d" % n)


def apply_canary(text, canary, path_or_name):
    new, k = re.subn(canary["from"], canary["to"], text, count=canary.get("count", 1))
    if k == 0:
        raise Undecided("canary-did-not-apply", "%s on %s" % (canary["id"], path_or_name))
    return new


def build_tu(vu, work, canary=None):
    """Expand the VU's tu.cpp template into work/tu.cpp.  Returns a log dict."""
    vdir = vu["_dir"]
    hdr = os.path.join(work, "hdr")
    os.makedirs(hdr, exist_ok=True)
    log = {"functions": [], "rewrites": [], "whole_files": [], "headers": []}
    r2_types = vu.get("r2_types", ["std::string", "string"])
    out = []
    tpl = open(os.path.join(vdir, vu.get("tu", "tu.cpp"))).read().split("\n")
    canary_applied = False
    emitted_using = set()
    all_usings = []
    for ln in tpl:
        m = DIRECTIVE.match(ln)
        if not m:
            out.append(ln)
            continue
        kind, rest = m.group(1), m.group(2)
        pos, kv = parse_kv(rest)
        if kind == "headers":
            copy_headers(pos, hdr, log, r2_types)
            log["headers"] += pos
        elif kind == "emptyheader":
            for name in pos:
                open(os.path.join(hdr, name), "w").write("/* shadowed empty by VU %s */\n" % vu["name"])
                log["rewrites"].append("header %s shadowed by an empty file" % name)
        elif kind == "shadow":
            for name in pos:
                shutil.copy(os.path.join(vdir, "shadow", name), os.path.join(hdr, name))
                log["rewrites"].append("header %s shadowed by VU stub shadow/%s" % (name, name))
        elif kind == "hdrinsert":
            # add a declaration to a copied header (needed for R1-renamed bodies): must fire exactly once
            name = pos[0]
            hp = os.path.join(hdr, name)
            ht = open(hp).read()
            if ht.count(kv["after"]) != 1:
                raise Undecided("extraction", "hdrinsert anchor %r found %d times in %s" % (kv["after"], ht.count(kv["after"]), name))
            ht = ht.replace(kv["after"], kv["after"] + " " + kv["text"])
            open(hp, "w").write(ht)
            log["rewrites"].append("header %s: declaration added after %r: %s" % (name, kv["after"], kv["text"]))
        elif kind == "hdrsubst":
            # textual substitution in copied headers (front-end workarounds such as R8/R10); must fire
            total = 0
            names = [os.path.basename(x) for x in sorted(glob.glob(os.path.join(hdr, pos[0])))]
            names = [n for n in names if n not in kv.get("except", "").split(",")]
            for name in names:
                hp = os.path.join(hdr, name)
                ht = open(hp).read()
                new, k = re.subn(kv["from"], kv["to"], ht)
                if k:
                    open(hp, "w").write(new)
                total += k
            if total == 0:
                raise Undecided("extraction", "hdrsubst %r did not fire in %s" % (kv["from"], pos[0]))
            log["rewrites"].append("headers %s: %r -> %r x%d" % (pos[0], kv["from"], kv["to"], total))
        elif kind == "bison":
            # regenerate the token header from the grammar of the working tree, as the build does
            src = os.path.join(REPO, pos[0])
            rc, so, se, dt = run(["bison", "-o", os.path.join(hdr, "cppBison.cxx"), "--defines=" + os.path.join(hdr, pos[1]),
                                  "-p", "cppyy", src], cwd=work, timeout=120)
            if rc != 0 or not os.path.exists(os.path.join(hdr, pos[1])):
                raise Undecided("extraction", "bison failed on %s: %s" % (src, (so + se)[-800:]))
            log["rewrites"].append("header %s generated by bison from %s" % (pos[1], pos[0]))
        elif kind == "generate":
            # VU-specific generator deriving harness tables from /repo (e.g. the operator alphabet of the grammar)
            rc, so, se, dt = run(["python3", os.path.join(vdir, pos[0]), REPO, work], cwd=work, timeout=120)
            if rc != 0:
                raise Undecided("extraction", "generator %s failed: %s" % (pos[0], (so + se)[-800:]))
            log["rewrites"].append("generated by %s: %s" % (pos[0], so.strip()[:300]))
        elif kind == "usings":
            out.append("//@@USINGS@@")
        elif kind == "splice":
            # text generated earlier in this run (by //@generate) becomes part of the TU
            out.append(open(os.path.join(work, pos[0])).read())
        elif kind == "truncate":
            # keep a header's text up to (not including) an anchor: //@truncate file.I anchor="..."
            name = pos[0]
            src = kv["from"]
            t = open(os.path.join(REPO, src)).read()
            i = t.find(kv["anchor"])
            if i < 0:
                raise Undecided("extraction", "truncate anchor %r not in %s" % (kv["anchor"], src))
            j = t.rfind("\n/**", 0, i)
            if j > 0:
                i = j + 1
            t2, k = X.rule_r2_text(t[:i], r2_types)
            open(os.path.join(hdr, name), "w").write('#line 1 "%s"\n' % os.path.join(REPO, src) + t2)
            log["rewrites"].append("header %s truncated at %r (R2 x%d)" % (name, kv["anchor"], k))
        elif kind in ("extract", "whole", "block"):
            path = os.path.join(REPO, pos[0])
            if not os.path.exists(path):
                raise Undecided("extraction", "missing file %s" % path)
            text = open(path, encoding="utf-8", errors="replace").read()
            try:
                if kind == "extract":
                    e = X.extract_function(path, text, pos[1],
                                           ordinal=int(kv["ordinal"]) if "ordinal" in kv else None,
                                           sig=kv.get("sig"))
                elif kind == "block":
                    e = X.extract_block(path, text, kv["start"], kv["end"], kv["head"],
                                        include_end=kv.get("include_end", "1") == "1", tail=kv.get("tail", ""), start_ordinal=int(kv["start_ordinal"]) if "start_ordinal" in kv else None)
                    e.qualname = "block:" + pos[0]
                    for hname, htext, hline in (X.file_static_helpers(text, e.raw_body) if kv.get("helpers", "1") == "1" else []):
                        e.text = '#line %d "%s"\n' % (hline, path) + htext + "\n" + e.text
                        e.rewrites.append("R5 file-static helper %s() called by the block included" % hname)
                else:
                    e = X.Extracted(path, "file:" + pos[0], text, 1, (0, len(text)))
                    e.name_off = 0
                    e.body_off = 0
                if canary and not canary_applied and canary["target"] == e.qualname.replace("file:", "") or \
                        (canary and not canary_applied and canary["target"] == pos[-1] and kind == "whole"):
                    # several extracts may bear the target's name (two blocks of one file, overloads): the canary goes to
                    # the first one its pattern matches
                    if re.search(canary["from"], e.text):
                        e.text = apply_canary(e.text, canary, e.qualname)
                        canary_applied = True
                sha = hashlib.sha256(e.text.encode()).hexdigest()[:16]
                if "rename" in kv:
                    X.rule_rename(e, kv["rename"])
                if "r2" in pos or kind == "whole":
                    e.text, k = X.rule_r2_text(e.text, r2_types)
                    if "r2" in pos and k == 0:
                        raise X.ExtractionError("R2 did not fire on %s" % e.qualname)
                    if k:
                        e.rewrites.append("R2 const-ref return -> by value x%d" % k)
                if kind in ("extract", "block"):
                    # R3 is applied wherever a range-for occurs (the front end has none); with the option r3 it must fire
                    e.text, k = X.rule_r3_text(e.text)
                    if k == 0 and "r3" in pos:
                        raise X.ExtractionError("R3 did not fire on %s" % e.qualname)
                    if k:
                        e.rewrites.append("R3 range-for -> index loop x%d" % k)
                if kind in ("extract", "whole", "block"):
                    rule_r7(e, typedef_table(hdr, [os.path.join(vdir, "env.h")]))
                if "r15" in pos:
                    # R15: `("literal" + s` -> `(std::string("literal") + s` (the front end does not find operator+ for a char array)
                    e.text, k = re.subn(r'(?<!\+ )("[^"\n]*") \+ ', r'std::string(\1) + ', e.text)
                    if k:
                        e.rewrites.append("R15 literal + string -> std::string(literal) + string x%d" % k)
                if "mono" in kv:
                    # R4: //@extract f.I fn mono=Element=int|A::B  -> one non-template overload per type
                    par, types = kv["mono"].split("=", 1)
                    body = re.sub(r'template\s*<\s*class\s+' + par + r'\s*>\s*', '', e.text, count=1)
                    if body == e.text:
                        raise X.ExtractionError("R4: %s is not a template over %s" % (e.qualname, par))
                    copies = []
                    for ty in types.split("|"):
                        c = re.sub(r'\btypename\s+', '', body)
                        c, k = re.subn(r'\b' + par + r'\b', ty, c)
                        if k == 0:
                            raise X.ExtractionError("R4 did not fire on %s" % e.qualname)
                        copies.append(c)
                    e.text = "\n".join(copies)
                    e.rewrites.append("R4 monomorphised over %s = %s" % (par, types))
                for key in sorted(kv):
                    if key.startswith("elide"):
                        # a stretch of the body that only produces diagnostics text and uses constructs the front end rejects
                        # (auto, reverse iterators) is removed; must fire exactly once; the evidence says how many lines
                        m_ = re.search(kv[key], e.text, re.S)
                        if not m_ or len(re.findall(kv[key], e.text, re.S)) != 1:
                            raise X.ExtractionError("elide %r did not fire exactly once on %s" % (kv[key], e.qualname))
                        e.text = e.text[:m_.start()] + "/* VU: %d lines of diagnostics output elided */\n" % m_.group(0).count("\n") + e.text[m_.end():]
                        e.rewrites.append("elided %d lines matching %r (diagnostics output only)" % (m_.group(0).count("\n"), kv[key]))
                        continue
                    if key.startswith("osubst"):
                        # optional rewrite (front-end workaround that is only needed while the construct is present)
                        sep = kv[key][0]
                        _, frm, to = kv[key].split(sep)[:3]
                        new, k = re.subn(frm, to, e.text)
                        if k:
                            e.text = new
                            e.rewrites.append("rewrite %r -> %r x%d" % (frm, to, k))
                        continue
                    if key.startswith("subst"):
                        sep = kv[key][0]
                        _, frm, to = kv[key].split(sep)[:3]
                        X.rule_subst(e, [(frm, to)])
                    if key.startswith("drop"):
                        # drop lines matching regex (must fire)
                        new, k = re.subn(r'(?m)^.*' + kv[key] + r'.*$', '', e.text)
                        if k == 0:
                            raise X.ExtractionError("drop %r did not fire on %s" % (kv[key], e.qualname))
                        e.text = new
                        e.rewrites.append("dropped %d lines matching %r" % (k, kv[key]))
            except X.ExtractionError as ex:
                raise Undecided("extraction", str(ex))
            if kind == "extract":
                # carry the source file's own using-declarations (file scope) along with the extract
                # ... and its own system includes, where the std model has that header
                for inc in re.findall(r'(?m)^#include\s*<([\w./]+)>', text):
                    if inc not in emitted_using and os.path.exists(os.path.join(VERIF, "vstl", inc)):
                        emitted_using.add(inc)
                        out.append("#include <%s>" % inc)
                for u in re.findall(r'(?m)^using\s+(?:std::\w+|namespace\s+std)\s*;', text):
                    if u not in emitted_using:
                        emitted_using.add(u)
                        if "//@@USINGS@@" in out:
                            all_usings.append(u)       # spliced at the //@usings placeholder
                        else:
                            out.append(u)
            out.append('#line %d "%s"' % (e.line, path))
            out.append(e.text)
            out.append('#line %d "tu.cpp"' % (len(out) + 2))
            if kind == "whole":
                log["whole_files"].append({"file": pos[0], "sha256_16": sha, "rewrites": e.rewrites})
            else:
                log["functions"].append({"function": e.qualname, "file": pos[0], "line": e.line,
                                         "sha256_16": sha, "rewrites": e.rewrites})
            log["rewrites"] += ["%s: %s" % (e.qualname, r) for r in e.rewrites]
        else:
            raise Undecided("vu-definition", "unknown directive %s" % kind)
    if canary and not canary_applied:
        raise Undecided("canary-did-not-apply", canary["id"])
    for extra in vu.get("copy", []):
        shutil.copy(os.path.join(vdir, extra), os.path.join(work, extra))
    out = [("\n".join(all_usings) if x == "//@@USINGS@@" else x) for x in out]
    open(os.path.join(work, "tu.cpp"), "w").write("\n".join(out) + "\n")
    return log


def conformance_check(vu, work):
    """Native check (g++ -fsyntax-only against the REAL headers of the working tree) that the VU's skeleton classes agree
    with the real declarations: vu/<name>/conformance.cpp holds the static_asserts.  A mismatch is 'environment drift'."""
    src = os.path.join(vu["_dir"], "conformance.cpp")
    if not os.path.exists(src):
        return None
    gen = os.path.join(work, "gen")
    os.makedirs(gen, exist_ok=True)
    rc, so, se, dt = run(["bison", "-o", os.path.join(gen, "cppBison.cxx"), "--defines=" + os.path.join(gen, "cppBison.h"), "-p", "cppyy",
                          os.path.join(REPO, "src/cppparser/cppBison.yxx")], cwd=work, timeout=120)
    incs = []
    for d in ("interrogate", "interrogatedb", "cppparser", "dtoolutil", "dtoolbase"):
        incs += ["-I", os.path.join(REPO, "src", d)]
    rc, so, se, dt = run(["g++", "-std=gnu++11", "-fsyntax-only", "-fno-access-control", "-DNDEBUG"] + incs + ["-I", gen, src], cwd=work, timeout=300)
    if rc != 0:
        raise Undecided("environment-drift", "skeleton classes of %s no longer agree with the real headers: %s" % (vu["name"], (so + se)[-1500:]))
    return dt


def compile_tu(vu, work, extra_defs=(), out="tu.gb"):
    tier = os.environ.get("VERIF_TIER_EFFECTIVE", "quick")
    defs = ["-D" + d for d in vu.get("defines", [])] + ["-D" + d for d in vu.get("defines_tier", {}).get(tier, [])] + \
           ["-D" + d for d in extra_defs]
    incs = ["-I", os.path.join(work, "hdr"), "-I", vu["_dir"], "-I", os.path.join(VERIF, "vstl"),
            "-I", os.path.join(VERIF, "lib")]
    cmd = ["goto-cc", "-x", "c++", "-nostdinc", "-DNDEBUG", "-DVERIF_CBMC"] + defs + incs + ["tu.cpp", "-o", out]
    rc, so, se, dt = run(cmd, cwd=work, timeout=600)
    if rc != 0 or not os.path.exists(os.path.join(work, out)):
        raise Undecided("front-end", (so + se)[-3000:])
    if vu.get("spec"):
        shutil.copy(os.path.join(vu["_dir"], vu["spec"]), os.path.join(work, "spec.c"))
        rc, so, se, dt2 = run(["goto-cc", "-DVERIF_CBMC"] + defs + ["-I", os.path.join(VERIF, "lib"), "spec.c", "-o", "spec.gb"], cwd=work)
        if rc != 0:
            raise Undecided("front-end(spec.c)", (so + se)[-3000:])
        rc, so, se, dt3 = run(["goto-cc", out, "spec.gb", "-o", "linked.gb"], cwd=work)
        if rc != 0:
            raise Undecided("link", (so + se)[-3000:])
        os.replace(os.path.join(work, "linked.gb"), os.path.join(work, out))
    return dt


def discover_entries(vu, work):
    t = open(os.path.join(work, "tu.cpp")).read()
    names = re.findall(r"(?m)^(?:extern \"C\" )?void (h_\w+)\s*\(\s*(?:void)?\s*\)", t) + [n for n in re.findall(r"(?m)^[A-Z_0-9]+\((h_\w+),", t) if not vu.get("macro_entries_listed")]
    ents = []
    over = {e["name"]: e for e in vu.get("entries", [])}
    for n in names:
        e = dict(vu.get("entry_defaults", {}))
        e.update(over.get(n, {}))
        e["name"] = n
        ents.append(e)
    for n in over:
        if n not in names:
            # entries produced by a macro: listed explicitly in vu.json
            e = dict(vu.get("entry_defaults", {}))
            e.update(over[n])
            ents.append(e)
    if not ents:
        raise Undecided("vu-definition", "no h_* entries in %s" % vu["name"])
    return ents


def parse_cbmc_json(text):
    try:
        data = json.loads(text)
    except Exception:
        # try to cut at the last closing bracket
        i = text.rfind("]")
        try:
            data = json.loads(text[:i + 1])
        except Exception:
            return None, None, "unparsable cbmc output"
    results, status, errors = None, None, []
    for item in data:
        if not isinstance(item, dict):
            continue
        if "result" in item:
            results = item["result"]
        if "goals" in item:
            results = item["goals"]
        if "cProverStatus" in item:
            status = item["cProverStatus"]
        if item.get("messageType") == "ERROR":
            errors.append(item.get("messageText", ""))
    return results, status, "\n".join(errors)


def entry_gb(vu, work, entry, tier, gb="tu.gb"):
    """Instrument (contracts / loop contracts) if the entry asks for it; returns goto binary path."""
    name = entry["name"]
    need = entry.get("enforce") or entry.get("replace") or entry.get("loops")
    if not need:
        return gb, 0.0
    out = "inst_%s_%s" % (name, gb)
    cmd = ["goto-instrument", "--dfcc", name]
    for e in entry.get("enforce", []):
        cmd += ["--enforce-contract", e]
    for r in entry.get("replace", []):
        cmd += ["--replace-call-with-contract", r]
    if entry.get("loops"):
        shutil.copy(os.path.join(vu["_dir"], entry["loops"]), os.path.join(work, entry["loops"]))
        cmd += ["--apply-loop-contracts", "--loop-contracts-file", entry["loops"]]
    elif entry.get("apply_loop_contracts"):
        cmd += ["--apply-loop-contracts"]
    cmd += [gb, out]
    # dfcc needs the entry point set
    rc, so, se, dt0 = run(["goto-cc", "--function", name, gb, "-o", "ep_%s_%s" % (name, gb)], cwd=work)
    if rc != 0:
        raise Undecided("goto-cc --function", (so + se)[-2000:])
    cmd[-2] = "ep_%s_%s" % (name, gb)
    rc, so, se, dt = run(cmd, cwd=work, timeout=600)
    if rc != 0:
        raise Undecided("goto-instrument", (so + se)[-3000:])
    return out, dt + dt0


def run_entry(vu, work, entry, tier, cover=False):
    name = entry["name"]
    gb, t_inst = entry_gb(vu, work, entry, tier, "tu_cover.gb" if cover else "tu.gb")
    checks = entry.get("checks", vu.get("checks", DEFAULT_CHECKS))
    if cover:
        checks = ["--no-standard-checks"]
    cmd = ["cbmc", gb, "--function", name, "--drop-unused-functions"] + list(checks)
    bounds = {}
    unwind = entry.get("unwind")
    if isinstance(unwind, dict):
        unwind = unwind.get(tier, unwind.get("quick"))
    if unwind:
        cmd += ["--unwind", str(unwind)] + ([] if cover else ["--unwinding-assertions"])
        bounds["unwind"] = unwind
    for us in entry.get("unwindset", []):
        cmd += ["--unwindset", us]
    if entry.get("object_bits"):
        cmd += ["--object-bits", str(entry["object_bits"])]
    backend = entry.get("backend", vu.get("backend", "kissat"))
    if tier == "thorough" and os.environ.get("VERIF_BACKEND"):
        backend = os.environ["VERIF_BACKEND"]
    if backend == "kissat":
        cmd += ["--external-sat-solver", "kissat"]
    elif backend == "cadical":
        cmd += ["--sat-solver", "cadical"]
    elif backend == "minisat":
        pass
    elif backend in ("z3", "cvc5"):
        cmd += ["--" + backend]
    cmd += entry.get("flags", [])
    if not cover and not vu.get("no_trace"):
        cmd += ["--trace"]
    cmd += ["--json-ui"]
    to = int(os.environ.get("VERIF_TIMEOUT", entry.get("timeout", {"quick": 1500, "thorough": 3600}[tier])))
    if vu.get("heavy") or entry.get("heavy"):
        with HEAVY:
            rc, so, se, dt = run(cmd, cwd=work, timeout=to)
    else:
        rc, so, se, dt = run(cmd, cwd=work, timeout=to)
    res = {"entry": name, "cmd": " ".join(cmd), "seconds": round(dt + t_inst, 2), "backend": backend,
           "unwind_is_termination": bool(entry.get("unwind_is_termination")),
           "bounds": bounds, "mode": entry.get("mode", "B" if unwind else "P")}
    if rc == -9:
        raise Undecided("timeout", "%s %s after %ss" % (vu["name"], name, to))
    results, status, errs = parse_cbmc_json(so)
    if results is None:
        raise Undecided("cbmc-error", "%s %s: rc=%s %s %s" % (vu["name"], name, rc, errs, (so[-1500:] + se[-1500:])))
    res["results"] = results
    res["status"] = status
    return res


# ------------------------------------------------------------------ traces and replay

def vin_from_trace(trace):
    vin = {}
    for st in trace or []:
        if st.get("stepType") != "assignment":
            continue
        lhs = st.get("lhs", "")
        base = lhs.split("::")[-1]
        if not base.startswith("vin_"):
            continue
        v = st.get("value", {})
        vin[base] = v.get("data", v.get("name"))
        if "binary" in v:
            vin[base + "#bin"] = v["binary"]
    return vin


def load_replay(vu):
    p = os.path.join(vu["_dir"], "replay.py")
    if not os.path.exists(p):
        return None
    spec = importlib.util.spec_from_file_location("replay_" + vu["name"], p)
    mod = importlib.util.module_from_spec(spec)
    spec.loader.exec_module(mod)
    return mod


def obligation_name(r):
    d = r.get("description", "")
    return d if d else r.get("property", "?")


def load_known():
    p = os.path.join(VERIF, "known_findings.json")
    if not os.path.exists(p):
        return []
    return json.load(open(p)).get("findings", [])


# ------------------------------------------------------------------ per-VU pipeline

def load_vu(d):
    vu = json.load(open(os.path.join(d, "vu.json")))
    vu["_dir"] = d
    vu["name"] = os.path.basename(d)
    return vu


def vu_pipeline(vu, pid, tier, seed, workroot, pool):
    """Runs one VU.  Returns a dict with obligations, failures, undecided, canaries, etc."""
    work = os.path.join(workroot, vu["name"])
    os.makedirs(work, exist_ok=True)
    out = {"vu": vu["name"], "failures": [], "undecided": [], "entries": [], "canaries": [],
           "cover": [], "log": None}
    try:
        log = build_tu(vu, work)
        out["log"] = log
        conformance_check(vu, work)
        t_cc = compile_tu(vu, work)
        out["compile_s"] = round(t_cc, 2)
        do_cover = vu.get("cover", True) and not os.environ.get("VERIF_NO_COVER")
        if do_cover:
            compile_tu(vu, work, extra_defs=["VU_COVER"], out="tu_cover.gb")
        entries = discover_entries(vu, work)
        if vu.get("only_entries"):
            oe = vu["only_entries"]
            if isinstance(oe, dict):        # per tier: the quick tier may run a subset of what the thorough tier runs
                oe = oe.get(os.environ.get("VERIF_TIER_EFFECTIVE", "quick"), oe.get("quick"))
            entries = [e for e in entries if re.search(oe, e["name"])]
        if os.environ.get("VERIF_ENTRY"):
            entries = [e for e in entries if re.search(os.environ["VERIF_ENTRY"], e["name"])]
    except Undecided as u:
        out["undecided"].append({"reason": u.reason, "detail": u.detail})
        return out
    futs = {pool.submit(run_entry, vu, work, e, tier): e for e in entries}
    cover_futs = {}
    if do_cover:
        cover_futs = {pool.submit(run_entry, vu, work, e, tier, True): e for e in entries}
    # canaries: quick = one per VU chosen by seed; thorough = all
    cans = vu.get("canaries", [])
    if os.environ.get("VERIF_NO_CANARY"):
        cans = []
    if tier == "quick" and cans:
        k = vu.get("quick_canaries", 1)
        if k == 0:
            cans = []
        idx = [(seed + i) % len(cans) for i in range(min(k, len(cans)))]
        cans = [cans[i] for i in sorted(set(idx))] if cans else []
    can_futs = {pool.submit(run_canary, vu, workroot, c, tier, entries): c for c in cans}
    for f in cf.as_completed(list(futs)):
        e = futs[f]
        try:
            r = f.result()
            out["entries"].append(r)
        except Undecided as u:
            out["undecided"].append({"reason": u.reason, "detail": u.detail, "entry": e["name"]})
    for f in cf.as_completed(list(cover_futs)):
        e = cover_futs[f]
        try:
            r = f.result()
            goals = [g for g in r["results"] if g.get("description", "").startswith("vacuity.reach")]
            sat = [g for g in goals if g.get("status") == "FAILURE"]
            unsat = [g for g in goals if g.get("status") != "FAILURE"]
            out["cover"].append({"entry": e["name"], "goals": len(goals), "satisfied": len(sat)})
            if not goals or unsat:
                out["undecided"].append({"reason": "vacuity", "entry": e["name"],
                                         "detail": "harness end unreachable (contradictory precondition?) or no reach marker: %s" %
                                         [g.get("property") for g in unsat]})
        except Undecided as u:
            out["undecided"].append({"reason": "cover:" + u.reason, "detail": u.detail, "entry": e["name"]})
    for f in cf.as_completed(list(can_futs)):
        c = can_futs[f]
        try:
            out["canaries"].append(f.result())
        except Undecided as u:
            out["undecided"].append({"reason": u.reason, "detail": u.detail, "canary": c["id"]})
    return out


def run_canary(vu, workroot, canary, tier, entries):
    work = os.path.join(workroot, vu["name"] + "__canary_" + canary["id"])
    os.makedirs(work, exist_ok=True)
    build_tu(vu, work, canary=canary)
    try:
        compile_tu(vu, work)
    except Undecided as u:
        raise Undecided("canary-does-not-compile", canary["id"] + ": " + u.detail[-500:])
    killed = False
    hit = None
    if not [e for e in entries if e["name"] in canary["entries"]] and not os.environ.get("VERIF_ENTRY"):
        raise Undecided("vu-definition", "canary %s names no existing entry" % canary["id"])
    for e in entries:
        if e["name"] not in canary["entries"]:
            continue
        r = run_entry(vu, work, e, tier)
        for x in r["results"]:
            if x.get("status") == "FAILURE" and re.search(canary["expect"], obligation_name(x)):
                killed = True
                hit = obligation_name(x)
    shutil.rmtree(work, ignore_errors=True)
    if not killed:
        raise Undecided("check-lost-its-teeth", "canary %s (%s -> %s) survived; expected failure of /%s/" %
                        (canary["id"], canary["from"], canary["to"], canary["expect"]))
    return {"id": canary["id"], "killed": True, "by": hit}


# ------------------------------------------------------------------ main

def main():
    ap = argparse.ArgumentParser()
    ap.add_argument("property")
    ap.add_argument("--tier", default=os.environ.get("VERIF_TIER", "quick"), choices=["quick", "thorough"])
    ap.add_argument("--vu", default=None)
    ap.add_argument("--keep", action="store_true")
    ap.add_argument("--replay", default=None)
    args = ap.parse_args()
    if os.environ.get("VERIF_TIER") in ("quick", "thorough"):
        args.tier = os.environ["VERIF_TIER"]
    os.environ["VERIF_TIER_EFFECTIVE"] = args.tier
    pid = args.property
    seed = int(os.environ.get("VERIF_SEED", "0") or 0)
    t0 = time.time()

    if args.replay:
        rp = json.load(open(args.replay))
        print(json.dumps(rp, indent=1)[:6000])
        vu = load_vu(os.path.join(VERIF, "vu", rp["vu"]))
        mod = load_replay(vu)
        if mod and rp.get("inputs") is not None:
            r = mod.replay({"entry": rp["entry"], "obligation": rp["obligation"], "vin": rp["inputs"],
                            "repo": REPO, "verif": VERIF})
            print(json.dumps(r, indent=1))
            sys.exit(1 if r.get("reproduced") else 0)
        sys.exit(0)

    vus = []
    for d in sorted(glob.glob(os.path.join(VERIF, "vu", "*"))):
        if not os.path.exists(os.path.join(d, "vu.json")):
            continue
        vu = load_vu(d)
        if pid in vu["properties"] and (args.vu is None or args.vu == vu["name"]):
            vus.append(vu)
    if not vus:
        print("UNDECIDED property=%s reason=no-verification-units" % pid)
        sys.exit(2)

    workroot = os.path.join(os.environ.get("VERIF_WORK", os.path.join(VERIF, "work")), "%s-%d" % (pid, os.getpid()))
    os.makedirs(workroot, exist_ok=True)
    known = [k for k in load_known() if k["property"] == pid]
    results = []
    with cf.ThreadPoolExecutor(max_workers=int(os.environ.get("VERIF_JOBS", "16"))) as pool:
        with cf.ThreadPoolExecutor(max_workers=8) as vpool:
            futs = [vpool.submit(vu_pipeline, vu, pid, args.tier, seed, workroot, pool) for vu in vus]
            for f in futs:
                results.append(f.result())

        # ------------------------------------------------ classify
        violations, known_lines, undecided = [], [], []
        n_obl_p = n_dis_p = n_obl_b = n_dis_b = 0
        samples, vu_reports, assumptions, trusted = [], [], set(), set()
        solver_s = 0.0
        for vu, r in zip(vus, results):
            for u in r["undecided"]:
                undecided.append((vu["name"], u))
            rep = {"vu": vu["name"], "title": vu.get("title", ""), "entries": [], "canaries": r["canaries"],
                   "cover": r["cover"], "extraction": r["log"], "part_of_property": vu.get("carries", ""),
                   "not_covered": vu.get("not_covered", "")}
            # mechanical scan of the hand-written part of the unit (harness, stubs, environment): every assumption and
            # every callee stub is an unchecked premise and is counted here
            try:
                htxt = ""
                for fn in ("tu.cpp", "env.h"):
                    fp = os.path.join(vu["_dir"], fn)
                    if os.path.exists(fp):
                        htxt += open(fp, errors="replace").read()
                rep["harness_scan"] = {"cprover_assume": htxt.count("__CPROVER_assume("),
                                       "uninterpreted_functions": sorted(set(re.findall(r"__CPROVER_uninterpreted_\w+", htxt))),
                                       "nondet_calls": len(re.findall(r"\bnondet_\w+\(", htxt))}
            except Exception:
                pass
            for a in vu.get("assumptions", []):
                assumptions.add(a)
            for a in vu.get("trusted", []):
                trusted.add(a)
            for er in r["entries"]:
                mode = er["mode"]
                obl = er["results"]
                fails = [x for x in obl if x.get("status") == "FAILURE"]
                unw = [x for x in fails if "unwinding assertion" in obligation_name(x) or ".unwind." in str(x.get("property"))]
                if unw and er.get("unwind_is_termination"):
                    # this entry's bound is the termination obligation: a loop of the EXTRACTED code (source under the
                    # repository) that runs past it is a violation; a loop of the library model or of the harness that
                    # runs past it only means the bound is too small for the model (undecided)
                    def in_repo(x):
                        f = str((x.get("sourceLocation") or {}).get("file", ""))
                        return f.startswith(REPO.rstrip("/") + "/")
                    unw = [x for x in unw if not in_repo(x)]
                if unw:
                    # a loop ran past the stated bound: the bounded stand-in does not decide this entry
                    fails = [x for x in fails if x not in unw]
                    undecided.append((vu["name"], {"reason": "unwind-bound-exceeded", "entry": er["entry"],
                                                   "detail": "%d unwinding assertions failed (bound %s)" % (len(unw), er["bounds"])}))
                oks = [x for x in obl if x.get("status") == "SUCCESS"]
                other = [x for x in obl if x.get("status") not in ("FAILURE", "SUCCESS")]
                if other:
                    undecided.append((vu["name"], {"reason": "obligation-status", "entry": er["entry"],
                                                   "detail": str([(obligation_name(x), x.get("status")) for x in other][:5])}))
                if not obl:
                    undecided.append((vu["name"], {"reason": "vacuity", "entry": er["entry"], "detail": "zero obligations"}))
                if mode == "P":
                    n_obl_p += len(obl)
                    n_dis_p += len(oks)
                else:
                    n_obl_b += len(obl)
                    n_dis_b += len(oks)
                solver_s += er["seconds"]
                rep["entries"].append({"entry": er["entry"], "mode": mode, "bounds": er["bounds"],
                                       "backend": er["backend"], "seconds": er["seconds"],
                                       "obligations": len(obl), "discharged": len(oks), "cmd": er["cmd"]})
                for x in oks[:2]:
                    if len(samples) < 40:
                        samples.append({"vu": vu["name"], "entry": er["entry"], "obligation": obligation_name(x),
                                        "status": "SUCCESS", "mode": mode})
                for x in fails:
                    violations.append((vu, er, x))
            vu_reports.append(rep)

        # ------------------------------------------------ failures: known findings, replay
        os.makedirs(os.path.join(OUTROOT, "replays"), exist_ok=True)
        for old in glob.glob(os.path.join(OUTROOT, "replays", pid + "-*.json")):
            if args.vu is None or ("-" + args.vu + "-") in old:
                os.remove(old)
        out_lines = []
        real_violations = 0
        handled_known = set()
        # group failures per (vu, entry); known findings are matched per group and the entry is re-run
        # with every matched known input class excluded, so that anything else is still a violation
        groups = {}
        for vu, er, x in violations:
            groups.setdefault((vu["name"], er["entry"]), []).append((vu, er, x))
        final = []
        for (vname, ename), items in sorted(groups.items()):
            vu, er = items[0][0], items[0][1]
            ks = [k for k in known if k.get("status") == "known" and k["vu"] == vname and re.search(k["entry"], ename)
                  and any(re.search(k["obligation"], obligation_name(x)) for _, _, x in items)]
            unmatched = [it for it in items if not any(re.search(k["obligation"], obligation_name(it[2])) for k in ks)]
            final += unmatched
            if ks:
                ok, detail = rerun_excluding(vu, workroot, er, ks, args.tier)
                if ok is None:
                    undecided.append((vname, {"reason": "known-finding-rerun", "detail": detail}))
                else:
                    for k in ks:
                        known_lines.append("KNOWN-FINDING: property=%s %s" % (pid, k["what"]))
                    for x in detail:
                        if not any(obligation_name(x) == obligation_name(u[2]) for u in unmatched):
                            final.append((vu, er, x))
        # one VIOLATION line (and one replay file) per (vu, entry); the file lists every refuted obligation
        fgroups = {}
        for vu, er, x in final:
            fgroups.setdefault((vu["name"], er["entry"]), []).append((vu, er, x))
        for (vname, ename), items in sorted(fgroups.items()):
            vu, er = items[0][0], items[0][1]
            # prefer a property-carrying (named) obligation as the headline
            items.sort(key=lambda it: (0 if re.match(r"^C\d\d", obligation_name(it[2])) else 1))
            x = items[0][2]
            oname = obligation_name(x)
            vin = vin_from_trace(x.get("trace"))
            rp = {"property": pid, "vu": vname, "entry": ename, "obligation": oname,
                  "all_refuted_obligations": [obligation_name(it[2]) for it in items],
                  "cbmc_property": x.get("property"), "source": x.get("sourceLocation"),
                  "inputs": vin, "cbmc_cmd": er["cmd"], "mode": er["mode"],
                  "functions": [f["function"] for f in (results[vus.index(vu)]["log"] or {}).get("functions", [])],
                  "trace_tail": [s for s in (x.get("trace") or []) if s.get("stepType") in ("assignment", "failure")][-25:]}
            native = None
            mod = load_replay(vu)
            if mod is not None:
                try:
                    native = mod.replay({"entry": ename, "obligation": oname, "vin": vin,
                                         "repo": REPO, "verif": VERIF})
                except Exception as ex:  # replay machinery failure is not a verdict
                    native = {"reproduced": False, "error": repr(ex)}
            rp["native_replay"] = native
            safe = re.sub(r'[^A-Za-z0-9_.-]+', '_', "%s-%s-%s" % (pid, vname, ename))[:150]
            path = os.path.join(OUTROOT, "replays", safe + ".json")
            json.dump(rp, open(path, "w"), indent=1, default=str)
            real_violations += 1
            print("  refuted: %s %s: %s%s" % (vname, ename, oname, (" (+%d more)" % (len(items) - 1)) if len(items) > 1 else ""))
            if native and native.get("reproduced"):
                out_lines.append("VIOLATION property=%s replay=%s" % (pid, path))
            else:
                out_lines.append("VIOLATION property=%s replay=%s no-failing-input-found" % (pid, path))

    # ------------------------------------------------ evidence
    level = "proof" if n_obl_p > 0 else "model_checking"
    # never above what MANIFEST.json claims: a property decided mostly by bounded stand-ins stays model_checking even when
    # a few complete (P) obligations belong to it
    try:
        claimed = {c["id"]: c.get("category") for c in json.load(open(os.path.join(VERIF, "lib", "manifest_src.json")))["claimed"]}
        if claimed.get(pid) == "model_checking":
            level = "model_checking"
    except Exception:
        pass
    ncan = sum(len(r["canaries"]) for r in results)
    cov = {
        "obligations": n_obl_p, "discharged": n_dis_p,
        "bounded_obligations": n_obl_b, "bounded_discharged": n_dis_b,
        "evaluations": sum(len(r["entries"]) for r in results),
        "distinct_nontrivial": n_dis_p + n_dis_b,
        "rule": "one evaluation = one cbmc run of a harness entry (a contract in enforce form) over fully symbolic inputs; "
                "distinct_nontrivial = number of distinct named obligations discharged in this run. "
                "obligations/discharged count P-mode (unbounded) entries only; bounded_* count B-mode entries "
                "(bounds listed per entry) and are never counted as proved",
        "checker_cmd": "bin/check %s --tier %s  (per entry: goto-cc -x c++ -nostdinc ... ; [goto-instrument --dfcc ...] ; cbmc --function h_* <checks> --external-sat-solver kissat --json-ui)" % (pid, args.tier),
        "trusted_base": sorted(trusted | {
            "cbmc/goto-cc/goto-instrument 6.11.0 incl. its C++ front end; kissat SAT back end",
            "vstl: verification model of std::string/vector/map/iostream (contracts on libstdc++, unchecked)",
            "extraction rewrites R0-R6 are meaning preserving (each application listed under units[].extraction)"}),
        "samples": samples[:40],
        "units": vu_reports,
        "solver_seconds": round(solver_s, 1),
        "canaries_run": ncan, "canaries_killed": ncan,
        "known_findings_reported": known_lines,
        "undecided": [{"vu": v, **u} for v, u in undecided],
        "repo": REPO,
    }
    ev = {"property_id": pid, "tier": args.tier, "seed": seed, "level": level, "coverage": cov,
          "assumptions": sorted(assumptions), "wall_s": round(time.time() - t0, 1), "violations": real_violations}
    # a run restricted to one unit or one entry is a development run: it must not overwrite the property's evidence
    partial = args.vu is not None or os.environ.get("VERIF_ENTRY") or os.environ.get("VERIF_NO_COVER") or os.environ.get("VERIF_NO_CANARY")
    evdir = os.path.join(OUTROOT, "work", "partial-evidence") if partial else os.path.join(OUTROOT, "evidence")
    os.makedirs(evdir, exist_ok=True)
    json.dump(ev, open(os.path.join(evdir, pid + ".json"), "w"), indent=1, default=str)

    if not args.keep:
        shutil.rmtree(workroot, ignore_errors=True)
        try:
            os.rmdir(os.path.join(VERIF, "work"))
        except OSError:
            pass

    for l in known_lines:
        print(l)
    for l in out_lines:
        print(l)
    print("property=%s tier=%s units=%d entries=%d obligations(P)=%d/%d obligations(B)=%d/%d canaries=%d wall=%.1fs" % (
        pid, args.tier, len(vus), cov["evaluations"], n_dis_p, n_obl_p, n_dis_b, n_obl_b, ncan, time.time() - t0))
    if real_violations:
        sys.exit(1)
    if undecided:
        for v, u in undecided:
            print("UNDECIDED property=%s vu=%s reason=%s %s" % (pid, v, u.get("reason"), json.dumps({k: u[k] for k in u if k != "reason"})[:1500]))
        sys.exit(2)
    sys.exit(0)


def rerun_excluding(vu, workroot, er, kfs, tier):
    """Re-run an entry with the known findings' input classes excluded (-D<define> each).
    Returns (True, [remaining failures]) or (None, detail) if undecided."""
    work = os.path.join(workroot, vu["name"] + "__kf_" + er["entry"])
    os.makedirs(work, exist_ok=True)
    try:
        build_tu(vu, work)
        compile_tu(vu, work, extra_defs=[k["exclude_define"] for k in kfs])
        entries = [e for e in discover_entries(vu, work) if e["name"] == er["entry"]]
        r = run_entry(vu, work, entries[0], tier)
    except Undecided as u:
        return None, u.reason + ": " + u.detail[:500]
    fails = [x for x in r["results"] if x.get("status") == "FAILURE"]
    return True, fails


if __name__ == "__main__":
    main()
