#!/usr/bin/env python3
"""Regenerates MANIFEST.json from lib/manifest_src.json (claimed checks + not_applicable)."""
import json, os
V = os.path.dirname(os.path.dirname(os.path.abspath(__file__)))
src = json.load(open(os.path.join(V, "lib", "manifest_src.json")))
checks = []
for c in src["claimed"]:
    pid = c["id"]
    checks.append({
        "property_id": pid,
        "quick_cmd": "bin/check %s --tier quick" % pid,
        "thorough_cmd": "bin/check %s --tier thorough" % pid,
        "evidence_file": "evidence/%s.json" % pid,
        "replay_cmd_template": "bin/check %s --replay {path}" % pid,
        "engine": "cbmc-contracts",
        "level_claimed": {"category": c["category"], "text": c["text"], "design_ref": c.get("design_ref", "DESIGN.md section 6")},
        "level_note": c["note"],
        "technique": c["technique"],
    })
m = {
    "version": 1,
    "setup_cmd": "true",
    "hooks": {
        "guard": "INTERROGATE_VERIF",
        "enable": "no hooks: contracts, loop contracts and environments live in /verif and are attached to functions extracted verbatim from /repo's working tree at goto-binary level; /repo needs no annotation",
        "baseline_off_cmd": "cmake --build /repo/_build && ctest --test-dir /repo/_build -j8 --timeout 900",
        "source_commits": [],
        "add_only": True,
    },
    "engines": [{"name": "cbmc-contracts", "path": "lib/driver.py",
                 "serves_properties": [c["id"] for c in src["claimed"]],
                 "kind_free_text": "contract-based deductive verification with CBMC 6.11: real functions extracted verbatim from /repo each run, contracts as harness-encoded pre/postconditions, DFCC code contracts and loop contracts; kissat back end"}],
    "checks": checks,
    "notes": src.get("notes", ""),
    "not_applicable": src["not_applicable"],
}
json.dump(m, open(os.path.join(V, "MANIFEST.json"), "w"), indent=1)
print("MANIFEST.json written: %d checks, %d not_applicable" % (len(checks), len(m["not_applicable"])))
