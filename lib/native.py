"""Native builds of /repo's current working tree for replaying counterexamples against the real code."""
import os
import shutil
import subprocess
import tempfile

REPO = os.environ.get("VERIF_REPO", "/repo")


def sh(cmd, cwd=None, timeout=900, env=None, stdin=None):
    try:
        p = subprocess.run(cmd, cwd=cwd, stdout=subprocess.PIPE, stderr=subprocess.STDOUT, timeout=timeout,
                           env=env, input=stdin)
        return p.returncode, p.stdout.decode("utf-8", "replace")
    except subprocess.TimeoutExpired as e:
        return -9, (e.stdout or b"").decode("utf-8", "replace") + "\nTIMEOUT"


class NativeBuild:
    """cmake build of the working tree in a scratch directory under /var/tmp (removed by close())."""

    def __init__(self, targets=("interrogatedb", "parse_file", "interrogate", "interrogate_module")):
        self.dir = tempfile.mkdtemp(prefix="verif-native-", dir="/var/tmp")
        self.targets = targets
        self.ok = False
        self.log = ""

    def build(self):
        rc, out = sh(["cmake", "-G", "Ninja", "-S", REPO, "-B", self.dir, "-DCMAKE_BUILD_TYPE=RelWithDebInfo",
                      "-DBUILD_TESTING=OFF"])
        self.log += out[-2000:]
        if rc != 0:
            return False
        rc, out = sh(["cmake", "--build", self.dir, "-j", "16", "--target"] + list(self.targets))
        self.log += out[-3000:]
        self.ok = rc == 0
        return self.ok

    def bin(self, name):
        return os.path.join(self.dir, "bin", name)

    def includes(self):
        r, b = REPO, self.dir
        return ["-I%s/cmake/src/interrogatedb" % b, "-I%s/src/interrogatedb" % r, "-I%s/cmake/src/dtoolutil" % b,
                "-I%s/src/dtoolutil" % r, "-I%s/cmake/src/dtoolbase" % b, "-I%s/include" % b, "-I%s/src/dtoolbase" % r,
                "-I%s/src/cppparser" % r, "-I%s/cmake/src/cppparser" % b]

    def compile_driver(self, src_text, name="driver", extra=()):
        src = os.path.join(self.dir, name + ".cpp")
        open(src, "w").write(src_text)
        exe = os.path.join(self.dir, name)
        cmd = ["g++", "-std=gnu++11", "-O1", "-g", "-fno-access-control", "-DNDEBUG", src, "-o", exe] + self.includes() + \
              ["-L%s/lib" % self.dir, "-Wl,-rpath,%s/lib" % self.dir, "-linterrogatedb", "-ldtoolutil", "-ldtoolbase", "-ldl"] + list(extra)
        rc, out = sh(cmd)
        self.log += out[-2000:]
        return exe if rc == 0 else None

    def close(self):
        shutil.rmtree(self.dir, ignore_errors=True)


def describe_exit(rc):
    if rc == -9:
        return "timeout"
    if rc < 0:
        import signal
        try:
            return "killed by signal %s" % signal.Signals(-rc).name
        except Exception:
            return "killed by signal %d" % -rc
    return "exit %d" % rc
