#!/bin/bash
# usage: run_seed.sh <seed-id e.g. C20-2> [quick|thorough] [property-to-check]
# Runs the check of the seed's property against a scratch copy of /repo with the seeded change applied.
# /repo itself is not touched.  Prints the check's tail and "SEED <id> exit=<rc>".
S=$1; TIER=${2:-quick}; P=${3:-${S%%-*}}
D=/var/tmp/seedrepo-$S-$$; O=/var/tmp/seedout-$S-$$
mkdir -p $D $O
rsync -a --exclude _build --exclude .git /repo/ $D/
( cd $D && patch -p1 -s < /verif/seeded/$S/patch.diff ) || { echo "SEED $S patch failed"; rm -rf $D $O; exit 3; }
cd /verif
VERIF_REPO=$D VERIF_OUT=$O VERIF_WORK=$O/work VERIF_NO_CANARY=1 VERIF_NO_COVER=1 bin/check $P --tier $TIER > $O/log 2>&1; rc=$?
grep -E 'refuted|VIOLATION|UNDECIDED|^property=' $O/log | cut -c1-260 | head -12
for f in $O/replays/*.json; do [ -f "$f" ] && python3 -c "
import json,sys; d=json.load(open('$f')); n=d.get('native_replay') or {}; print('  replay:', d['entry'], '| reproduced=', n.get('reproduced'), '|', str(n.get('observed'))[:60], '|', str(n.get('cmd'))[:100])"; done
echo "SEED $S property=$P exit=$rc"
rm -rf $D $O
