"""Mechanical extraction of function definitions from /repo source files.

The extracted bytes are the original bytes; the only transformations are the counted rewrite
rules R0..R6 described in DESIGN.md section 4.2.  Any failure raises ExtractionError, which the
driver turns into exit 2 ("undecided: extraction"), never into a violation.
"""
import re


class ExtractionError(Exception):
    pass


def blank(text):
    """Return a same-length copy with comments, string and char literals blanked (newlines kept)."""
    out = list(text)
    i, n = 0, len(text)
    while i < n:
        c = text[i]
        if c == '/' and i + 1 < n and text[i + 1] == '/':
            j = text.find('\n', i)
            if j < 0:
                j = n
            for k in range(i, j):
                out[k] = ' '
            i = j
        elif c == '/' and i + 1 < n and text[i + 1] == '*':
            j = text.find('*/', i + 2)
            j = n if j < 0 else j + 2
            for k in range(i, j):
                if text[k] != '\n':
                    out[k] = ' '
            i = j
        elif c == '"' or c == "'":
            q = c
            j = i + 1
            while j < n and text[j] != q:
                if text[j] == '\\':
                    j += 1
                if j < n and text[j] == '\n' and q == "'":
                    break
                j += 1
            # keep the quotes, blank the inside
            for k in range(i + 1, min(j, n)):
                if text[k] != '\n':
                    out[k] = ' '
            i = j + 1
        else:
            i += 1
    return ''.join(out)


def _match_close(b, i, open_c, close_c):
    depth = 0
    n = len(b)
    while i < n:
        if b[i] == open_c:
            depth += 1
        elif b[i] == close_c:
            depth -= 1
            if depth == 0:
                return i
        i += 1
    raise ExtractionError("unbalanced %s%s" % (open_c, close_c))


def _name_regex(qualname):
    parts = [p.strip() for p in qualname.split('::')]
    pieces = []
    for p in parts:
        if p.startswith('operator'):
            op = p[len('operator'):].strip()
            pieces.append(r'operator\s*' + re.escape(op))
        else:
            pieces.append(re.escape(p))
    body = r'\s*::\s*'.join(pieces)
    return re.compile(r'(?<![\w:~])' + body + r'\s*\(')


def find_definitions(text, qualname):
    """All definitions of qualname in text: list of (start, name_start, body_open, end)."""
    b = blank(text)
    rx = _name_regex(qualname)
    res = []
    for m in rx.finditer(b):
        # previous non-space must not be '::' (a longer qualification) or '.'/'->' (a call)
        k = m.start() - 1
        while k >= 0 and b[k] in ' \t\n':
            k -= 1
        if k >= 1 and b[k - 1:k + 1] in ('::', '->'):
            continue
        if k >= 0 and b[k] in '.=(,!&|+-*/<>?' and not qualname.startswith('operator'):
            # '&' and '*' may be declarators (T &C::f); only reject the others
            if b[k] not in '&*>':
                continue
        popen = m.end() - 1
        try:
            pclose = _match_close(b, popen, '(', ')')
        except ExtractionError:
            continue
        j = pclose + 1
        # trailing qualifiers
        while True:
            while j < len(b) and b[j] in ' \t\n':
                j += 1
            mm = re.match(r'(const|noexcept|override|final|volatile)\b', b[j:])
            if mm:
                j += mm.end()
                continue
            break
        if j >= len(b):
            continue
        if b[j] == ':' and b[j:j + 2] != '::':
            # constructor initialiser list: scan to '{' at paren depth 0
            depth = 0
            while j < len(b):
                if b[j] == '(':
                    depth += 1
                elif b[j] == ')':
                    depth -= 1
                elif b[j] == '{' and depth == 0:
                    break
                elif b[j] == ';' and depth == 0:
                    break
                j += 1
        if j >= len(b) or b[j] != '{':
            continue
        bclose = _match_close(b, j, '{', '}')
        # start: scan backwards to previous ; } { or preprocessor line
        s = m.start()
        k = s - 1
        while k >= 0:
            ch = b[k]
            if ch in ';}{':
                break
            if ch == ':' and re.search(r'(public|private|protected|PUBLISHED)\s*$', b[:k]):
                break
            if ch == '\n':
                # is the previous line a preprocessor line?
                ls = b.rfind('\n', 0, k) + 1
                if b[ls:k].lstrip().startswith('#'):
                    break
            k -= 1
        start = k + 1
        while start < s and b[start] in ' \t\n':
            start += 1
        head = b[start:m.start()]
        # a call statement such as `return f(x) {`? cannot be: calls are followed by ';'.
        if re.search(r'\b(return|else|if|while|for|switch|case|new|delete)\b', head):
            continue
        res.append((start, m.start(), j, bclose + 1))
    return res


class Extracted:
    def __init__(self, file, qualname, text, line, span):
        self.file = file
        self.qualname = qualname
        self.text = text
        self.line = line
        self.span = span
        self.rewrites = []


def extract_function(path, text, qualname, ordinal=None, sig=None):
    defs = find_definitions(text, qualname)
    if sig is not None:
        rx = re.compile(sig, re.S)
        defs = [d for d in defs if rx.search(text[d[1]:d[2]])]
    if not defs:
        raise ExtractionError("function %s not found in %s" % (qualname, path))
    if ordinal is not None:
        if ordinal >= len(defs):
            raise ExtractionError("function %s ordinal %d not found in %s" % (qualname, ordinal, path))
        d = defs[ordinal]
    else:
        if len(defs) != 1:
            raise ExtractionError("function %s ambiguous in %s (%d definitions; give ordinal or sig)"
                                  % (qualname, path, len(defs)))
        d = defs[0]
    start, name_start, body_open, end = d
    line = text.count('\n', 0, start) + 1
    e = Extracted(path, qualname, text[start:end], line, (start, end))
    e.name_off = name_start - start
    e.body_off = body_open - start
    return e


# ---------------------------------------------------------------- rewrite rules

def rule_rename(e, suffix):
    """R1: suffix the *definition's* own name (calls inside keep the original name)."""
    last = e.qualname.split('::')[-1].strip()
    head = e.text[:e.body_off]
    idx = head.rfind(last, e.name_off)
    if idx < 0:
        raise ExtractionError("R1 did not fire on %s" % e.qualname)
    e.text = e.text[:idx] + last + suffix + e.text[idx + len(last):]
    e.body_off += len(suffix)
    e.rewrites.append("R1 rename definition %s -> %s%s" % (last, last, suffix))


_R2 = re.compile(r'const\s+((?:std::)?\w+(?:::\w+)*)\s*&\s*((?:\w+\s*::\s*)*\w+\s*\([^()]*\)\s*const)')


def rule_r2_text(text, types=None):
    """R2: `const T &C::f(...) const` -> `T C::f(...) const` for class type T (front-end bug A.1).
    Returns (new_text, count)."""
    def rep(m):
        t = m.group(1)
        if types is not None and t not in types:
            return m.group(0)
        rep.n += 1
        return t + ' ' + m.group(2)
    rep.n = 0
    out = _R2.sub(rep, text)
    return out, rep.n


_R3 = re.compile(r'for\s*\(\s*((?:const\s+)?[\w:]+(?:\s*<[^<>;]*>)?\s*[&*]?\s*)(\w+)\s*:\s*([^;{}()]+?)\)\s*\{')


def rule_r3_text(text):
    """R3: range-for over string/vector lvalue -> index loop.  Returns (new_text, count)."""
    cnt = [0]

    def rep(m):
        cnt[0] += 1
        i = "__vu_i%d" % cnt[0]
        decl, var, rng = m.group(1), m.group(2), m.group(3).strip()
        # `auto` is not understood by the front end: spell the element type out (the copy / reference semantics of the
        # declaration are kept: `auto item` still copies, `auto &item` still refers)
        decl = re.sub(r'\bauto\b', "__typeof__(*(%s).begin())" % rng, decl)
        # positional access through begin(): the same text for vector, string, list, set and map models (iterators are
        # element pointers); `c[i]` would be a key lookup on a map
        return "for (size_t %s = 0; %s < (%s).size(); ++%s) { %s%s = (%s).begin()[%s];" % (
            i, i, rng, i, decl, var, rng, i)
    out = _R3.sub(rep, text)
    return out, cnt[0]


def rule_subst(e, pairs):
    """R4 (and other must-fire token substitutions): each (from_regex, to) must fire >= 1 time."""
    for frm, to in pairs:
        new, k = re.subn(frm, to, e.text)
        if k == 0:
            raise ExtractionError("substitution %r did not fire on %s" % (frm, e.qualname))
        e.text = new
        e.rewrites.append("subst %r -> %r x%d" % (frm, to, k))


def extract_block(path, text, start_anchor, end_anchor, wrapper_head, include_end=True, tail="", start_ordinal=None):
    """R5: statements between two anchor lines wrapped into a function.  The start anchor must be unique, or its
    occurrence is chosen with start_ordinal (0-based)."""
    if start_ordinal is None:
        i = text.find(start_anchor)
        if i < 0 or text.find(start_anchor, i + 1) >= 0:
            raise ExtractionError("block start anchor %r missing or ambiguous in %s" % (start_anchor, path))
    else:
        i = -1
        for _ in range(start_ordinal + 1):
            i = text.find(start_anchor, i + 1)
            if i < 0:
                raise ExtractionError("block start anchor %r: occurrence %d missing in %s" % (start_anchor, start_ordinal, path))
    j = text.find(end_anchor, i)
    if j < 0:
        raise ExtractionError("block end anchor %r missing in %s" % (end_anchor, path))
    ls = text.rfind('\n', 0, i) + 1
    le = text.find('\n', j)
    if not include_end:
        le = text.rfind('\n', 0, j)
    body = text[ls:le]
    line = text.count('\n', 0, ls) + 1
    e = Extracted(path, "block:" + start_anchor.strip(), wrapper_head + " {\n#line %d \"%s\"\n" % (line, path) + body + "\n" + tail + "\n}\n", line, (ls, le))
    e.rewrites.append("R5 block %r .. %r wrapped in %s" % (start_anchor.strip(), end_anchor.strip(), wrapper_head))
    e.raw_body = body
    return e


def file_static_helpers(text, body):
    """File-scope `static` functions of the same file that the block calls (a refactoring may move statements of the block
    into such a helper): their verbatim definitions, to be placed in front of the wrapped block."""
    b = blank(text)
    out = []
    for m in re.finditer(r'(?m)^static\s+[\w:<>\s\*&]+?\b(\w+)\s*\(', b):
        name = m.group(1)
        if not re.search(r'\b' + re.escape(name) + r'\s*\(', body):
            continue
        for d in find_definitions(text, name):
            if d[0] <= m.start() + 8 and m.start() <= d[1]:
                out.append((name, text[d[0]:d[3]], text.count('\n', 0, d[0]) + 1))
    return out
