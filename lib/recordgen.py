#!/usr/bin/env python3
"""Derives the data members of the interrogatedb record classes from the headers of /repo's working tree
and writes them as X-macro field lists (records.inc).  Harnesses iterate over these lists, so a member
added to a class is automatically part of every whole-object postcondition (and an index-typed member
without a remap line, a serialised member without an output line, ... fails an obligation).

usage: recordgen.py <repo> <workdir>

X-macro kinds (each list FIELDS_<Class> takes 8 macro arguments in this order):
  SC(type, name)            scalar int/bool/enum that is not an index
  IX(name)                  scalar of an index typedef (TypeIndex, FunctionIndex, ...)
  ST(name)                  std::string
  IV(name)                  std::vector< index typedef >
  SV(name)                  std::vector<std::string>
  CV(ElemClass, name)       std::vector< nested record class >   (ElemClass has its own FIELDS_ list)
  PT(name)                  pointer members valid only inside one interrogate run (not serialised, not remapped)
  OT(name)                  anything else (std::map pointers etc.)
"""
import os
import re
import sys

INDEX_TYPES = {"TypeIndex", "FunctionIndex", "FunctionWrapperIndex", "ManifestIndex", "ElementIndex", "MakeSeqIndex"}
SCALARS = {"int", "bool", "AtomicToken", "unsigned int"}

CLASSES = [
    ("InterrogateComponent", "interrogateComponent.h", None),
    ("InterrogateType", "interrogateType.h", None),
    ("InterrogateType::Derivation", "interrogateType.h", "Derivation"),
    ("InterrogateType::EnumValue", "interrogateType.h", "EnumValue"),
    ("InterrogateFunction", "interrogateFunction.h", None),
    ("InterrogateFunctionWrapper", "interrogateFunctionWrapper.h", None),
    ("InterrogateFunctionWrapper::Parameter", "interrogateFunctionWrapper.h", "Parameter"),
    ("InterrogateElement", "interrogateElement.h", None),
    ("InterrogateManifest", "interrogateManifest.h", None),
    ("InterrogateMakeSeq", "interrogateMakeSeq.h", None),
]


def strip_comments(t):
    t = re.sub(r'/\*.*?\*/', lambda m: re.sub(r'[^\n]', ' ', m.group(0)), t, flags=re.S)
    t = re.sub(r'//[^\n]*', '', t)
    return t


def class_body(text, name):
    m = re.search(r'class\s+(?:EXPCL_\w+\s+)?' + name + r'\b[^;{]*\{', text)
    if not m:
        raise SystemExit("recordgen: class %s not found" % name)
    i = m.end()
    depth = 1
    j = i
    while depth and j < len(text):
        if text[j] == '{':
            depth += 1
        elif text[j] == '}':
            depth -= 1
        j += 1
    return text[i:j - 1]


def remove_nested(body):
    """blank nested class/enum bodies so that only the class's own members remain"""
    out = list(body)
    for m in re.finditer(r'\b(class|enum|struct)\s+\w+\s*\{', body):
        i = m.end()
        depth = 1
        j = i
        while depth and j < len(body):
            if body[j] == '{':
                depth += 1
            elif body[j] == '}':
                depth -= 1
            j += 1
        for k in range(m.start(), j):
            if out[k] != '\n':
                out[k] = ' '
    return ''.join(out)


def members(body):
    own = remove_nested(body)
    typedefs = {}
    for m in re.finditer(r'typedef\s+(.+?)\s+(\w+)\s*;', own):
        typedefs[m.group(2)] = re.sub(r'\s+', ' ', m.group(1))
    res = []
    for stmt in own.split(';'):
        s = ' '.join(stmt.split())
        s = re.sub(r'^(public|private|protected|PUBLISHED)\s*:\s*', '', s)
        s = re.sub(r'^(public|private|protected|PUBLISHED)\s*:\s*', '', s)
        if not s or '(' in s or s.startswith(('typedef', 'friend', 'static', 'INLINE', 'using', 'enum', 'class', 'struct')):
            continue
        m = re.match(r'^([\w:<>, ]+?)\s*(\*?)\s*(_\w+)( = [^;]+)?$', s)
        if not m:
            continue
        ty = m.group(1).strip()
        if m.group(2):
            ty += ' *'
        res.append((ty, m.group(3)))
    return res, typedefs


def classify(ty, typedefs):
    ty0 = typedefs.get(ty, ty)
    if ty0.endswith('*'):
        return ("PT", None)
    if ty0 in INDEX_TYPES:
        return ("IX", None)
    if ty0 in SCALARS:
        return ("SC", ty0)
    if ty0 in ("std::string", "string"):
        return ("ST", None)
    m = re.match(r'std::vector<\s*([\w:]+)\s*>', ty0)
    if m:
        e = m.group(1)
        if e in INDEX_TYPES:
            return ("IV", None)
        if e in ("std::string", "string"):
            return ("SV", None)
        return ("CV", e)
    return ("OT", None)


SESSION_MARK = "valid only during the session"


def blank_comments_keep_marker(t):
    """strip comments, but leave a token where the 'session only' comment was"""
    def rep(m):
        s = m.group(0)
        if SESSION_MARK in ' '.join(s.replace('//', ' ').split()):
            return " int _vu_session_marker_; "
        return re.sub(r'[^\n]', ' ', s)
    t = re.sub(r'/\*.*?\*/', rep, t, flags=re.S)
    t = re.sub(r'(?:^[ \t]*//[^\n]*\n)+', rep, t, flags=re.M)
    t = re.sub(r'//[^\n]*', '', t)
    return t


def gen_code(model):
    """C++ helpers over the field lists: havoc_X, copy_X, and obligation macros."""
    o = ["// generated by lib/recordgen.py: helpers over every data member of the record classes",
         "#ifndef RECORDS_GEN_H", "#define RECORDS_GEN_H",
         "int __CPROVER_uninterpreted_remap(int);",
         "// Lengths: with g_vu_shape < 0 every string length / list size is symbolic (0..CAP).  With a shape >= 0 they are",
         "// CONCRETE (contents stay symbolic): shape 0 = all empty, 1 = all at capacity, s >= 2 = (ordinal + s) mod (CAP+1),",
         "// so that over shapes 2..CAP+2 every variable-length member takes every length next to varying neighbours.",
         "static int g_vu_shape = -1; static unsigned g_vu_k = 0;",
         "static size_t vu_len(size_t cap) { unsigned k = g_vu_k++; if (g_vu_shape < 0) { size_t n = nondet_size_t(); __CPROVER_assume(n <= cap); return n; }",
         "  if (g_vu_shape == 0) return 0; if (g_vu_shape == 1) return cap; return (k + (unsigned)g_vu_shape) % (cap + 1); }",
         "static void vu_havoc_string(std::string &s) { s._trunc = false; s._n = vu_len(std::string::CAP);",
         "  for (size_t i = 0; i < std::string::CAP; i++) { char c = nondet_char(); s._d[i] = (i < s._n) ? c : (char)0; } s._d[std::string::CAP] = 0; }",
         "static void vu_havoc_intvec(std::vector<int> &v) { v._n = vu_len(std::vector<int>::CAP); for (size_t i = 0; i < std::vector<int>::CAP; i++) v._d[i] = nondet_int(); }",
         "static void vu_havoc_strvec(std::vector<std::string> &v) { v._n = vu_len(std::vector<std::string>::CAP); for (size_t i = 0; i < std::vector<std::string>::CAP; i++) vu_havoc_string(v._d[i]); }",
         ""]
    order = [c for c, _, n in CLASSES if n] + [c for c, _, n in CLASSES if not n]
    def fields(c):
        fs = list(model[c])
        if "::" not in c and c != "InterrogateComponent":
            fs = list(model["InterrogateComponent"]) + fs
        return fs
    for c in order:
        ident = c.replace("::", "_")
        outer = c.split("::")[0]
        fs = fields(c)
        # havoc
        o.append("static void havoc_%s(%s &o) {" % (ident, c))
        for kind, arg, name, sess in fs:
            if kind == "SC":
                o.append("  o.%s = (%s)nondet_int();" % (name, arg) if arg != "bool" else "  o.%s = nondet_bool();" % name)
            elif kind == "IX":
                o.append("  o.%s = nondet_int();" % name)
            elif kind == "ST":
                o.append("  vu_havoc_string(o.%s);" % name)
            elif kind == "IV":
                o.append("  vu_havoc_intvec(o.%s);" % name)
            elif kind == "SV":
                o.append("  vu_havoc_strvec(o.%s);" % name)
            elif kind == "CV":
                e = outer + "_" + arg
                o.append("  o.%s._n = vu_len(std::vector<%s::%s>::CAP);" % (name, outer, arg))
                o.append("  for (size_t i = 0; i < std::vector<%s::%s>::CAP; i++) havoc_%s(o.%s._d[i]);" % (outer, arg, e, name))
            elif kind == "PT":
                o.append("  o.%s = 0;" % name)
        o.append("}")
        # copy (field by field: independent of the class's own operator=)
        o.append("static void copy_%s(%s &d, const %s &s) {" % (ident, c, c))
        for kind, arg, name, sess in fs:
            if kind == "CV":
                e = outer + "_" + arg
                o.append("  d.%s._n = s.%s._n; for (size_t i = 0; i < std::vector<%s::%s>::CAP; i++) copy_%s(d.%s._d[i], s.%s._d[i]);" % (name, name, outer, arg, e, name, name))
            elif kind != "OT":
                o.append("  d.%s = s.%s;" % (name, name))
        o.append("}")
        # obligations: REMAP (C11)
        def lines_remap(prefix, lhs, rhs, fs_, cls, indent="  "):
            L = []
            for kind, arg, name, sess in fs_:
                a, b = "%s.%s" % (lhs, name), "%s.%s" % (rhs, name)
                tag = '"%s %s::%s' % (prefix, cls, name)
                if kind == "IX":
                    L.append(indent + 'OBL(%s == __CPROVER_uninterpreted_remap(%s), %s: index member is mapped through the remapper");' % (a, b, tag))
                elif kind == "IV":
                    L.append(indent + 'OBL(%s._n == %s._n, %s: index list keeps its length");' % (a, b, tag))
                    L.append(indent + 'for (size_t i = 0; i < std::vector<int>::CAP; i++) if (i < %s._n) OBL(%s._d[i] == __CPROVER_uninterpreted_remap(%s._d[i]), %s: every entry of the index list is mapped through the remapper");' % (b, a, b, tag))
                elif kind == "CV":
                    e = outer + "::" + arg
                    L.append(indent + 'OBL(%s._n == %s._n, %s: list keeps its length");' % (a, b, tag))
                    L.append(indent + "for (size_t j = 0; j < std::vector<%s>::CAP; j++) if (j < %s._n) {" % (e, b))
                    L += lines_remap(prefix, a + "._d[j]", b + "._d[j]", model[e], e, indent + "  ")
                    L.append(indent + "}")
                elif kind in ("SC", "ST", "PT"):
                    L.append(indent + 'OBL(%s == %s, %s: member that is not an index is unchanged");' % (a, b, tag))
                elif kind == "SV":
                    L.append(indent + 'OBL(%s._n == %s._n, %s: member that is not an index is unchanged");' % (a, b, tag))
                    L.append(indent + 'for (size_t i = 0; i < std::vector<std::string>::CAP; i++) if (i < %s._n) OBL(%s._d[i] == %s._d[i], %s: member that is not an index is unchanged");' % (b, a, b, tag))
            return L
        o.append("static void check_remap_%s(const %s &o, const %s &s) {" % (ident, c, c))
        o += lines_remap("C11.remap_indices", "o", "s", fs, c)
        o.append("}")
        # obligations: EQUAL on every persistent (non session-only) member (C12/C13)
        def lines_equal(prefix, lhs, rhs, fs_, cls, what, indent="  "):
            L = []
            for kind, arg, name, sess in fs_:
                if sess:
                    continue
                a, b = "%s.%s" % (lhs, name), "%s.%s" % (rhs, name)
                tag = '"%s %s::%s: %s"' % (prefix, cls, name, what)
                if kind in ("SC", "IX", "ST"):
                    L.append(indent + "OBL(%s == %s, %s);" % (a, b, tag))
                elif kind in ("IV", "SV"):
                    el = "int" if kind == "IV" else "std::string"
                    L.append(indent + "OBL(%s._n == %s._n, %s);" % (a, b, tag))
                    L.append(indent + "for (size_t i = 0; i < std::vector<%s>::CAP; i++) if (i < %s._n) OBL(%s._d[i] == %s._d[i], %s);" % (el, b, a, b, tag))
                elif kind == "CV":
                    e = outer + "::" + arg
                    L.append(indent + "OBL(%s._n == %s._n, %s);" % (a, b, tag))
                    L.append(indent + "for (size_t j = 0; j < std::vector<%s>::CAP; j++) if (j < %s._n) {" % (e, b))
                    L += lines_equal(prefix, a + "._d[j]", b + "._d[j]", model[e], e, what, indent + "  ")
                    L.append(indent + "}")
            return L
        # boolean: all persistent members equal (flags compared under a mask)
        def lines_eqp(lhs, rhs, fs_, indent="  "):
            L = []
            for kind, arg, name, sess in fs_:
                if sess:
                    continue
                a, b = "%s.%s" % (lhs, name), "%s.%s" % (rhs, name)
                if kind == "SC" and name == "_flags":
                    L.append(indent + "if ((%s & flagmask) != (%s & flagmask)) return false;" % (a, b))
                elif kind in ("SC", "IX"):
                    L.append(indent + "if (%s != %s) return false;" % (a, b))
                elif kind == "ST":
                    L.append(indent + "if (!(%s == %s)) return false;" % (a, b))
                elif kind in ("IV", "SV"):
                    el = "int" if kind == "IV" else "std::string"
                    L.append(indent + "if (%s._n != %s._n) return false;" % (a, b))
                    L.append(indent + "for (size_t i = 0; i < std::vector<%s>::CAP; i++) if (i < %s._n && !(%s._d[i] == %s._d[i])) return false;" % (el, b, a, b))
                elif kind == "CV":
                    e = outer + "_" + arg
                    L.append(indent + "if (%s._n != %s._n) return false;" % (a, b))
                    L.append(indent + "for (size_t j = 0; j < std::vector<%s::%s>::CAP; j++) if (j < %s._n && !eqp_%s(%s._d[j], %s._d[j], -1)) return false;" % (outer, arg, b, e, a, b))
            return L
        o.append("static bool eqp_%s(const %s &a, const %s &b, int flagmask) {" % (ident, c, c))
        o += lines_eqp("a", "b", fs)
        o.append("  return true;")
        o.append("}")
        o.append("#define CHECK_EQUAL_%s(PREFIX, WHAT, a, b) do { \\" % ident)
        for l in lines_equal("@P@", "(a)", "(b)", fs, c, "@W@"):
            o.append(l.replace('"@P@ ', 'PREFIX " ').replace(': @W@"', ': " WHAT') + " \\")
        o.append("} while (0)")
        o.append("")
    o.append("#endif")
    return "\n".join(o) + "\n"


def main():
    repo, work = sys.argv[1], sys.argv[2]
    d = os.path.join(repo, "src/interrogatedb")
    out = ["// generated by lib/recordgen.py from the headers of src/interrogatedb (working tree)"]
    summary = []
    model = {}
    for cname, hdr, nested in CLASSES:
        text = blank_comments_keep_marker(open(os.path.join(d, hdr)).read())
        outer = cname.split("::")[0]
        body = class_body(text, outer)
        if nested:
            body = class_body(body, nested)
        mem, typedefs = members(body)
        if not mem:
            raise SystemExit("recordgen: no members found in %s" % cname)
        macro = "FIELDS_" + cname.replace("::", "_")
        parts = []
        session = False
        model[cname] = []
        for ty, name in mem:
            if name == "_vu_session_marker_":
                session = True
                continue
            kind, arg = classify(ty, typedefs)
            model[cname].append((kind, arg, name, session or kind in ("PT", "OT")))
            if kind == "SC":
                parts.append("SC(%s, %s)" % (arg, name))
            elif kind == "CV":
                parts.append("CV(%s, %s)" % (arg, name))
            else:
                parts.append("%s(%s)" % (kind, name))
        out.append("#define %s(SC, IX, ST, IV, SV, CV, PT, OT) \\\n  %s" % (macro, " \\\n  ".join(parts)))
        summary.append("%s:%d" % (cname.split("::")[-1], len(mem)))
    open(os.path.join(work, "records.inc"), "w").write("\n".join(out) + "\n")
    open(os.path.join(work, "records_gen.h"), "w").write(gen_code(model))
    print("fields " + " ".join(summary))


if __name__ == "__main__":
    main()
