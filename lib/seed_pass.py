#!/usr/bin/env python3
"""Runs the check of every confirmed seeded change (seeded/<P>-<n>/patch.diff) against a scratch copy of /repo with the
change applied and records what the check reported in seeded/RESULTS.json.  /repo itself is never touched.
usage: seed_pass.py [-j N] [seed-id ...]"""
import json, os, re, shutil, subprocess, sys, glob
from concurrent.futures import ThreadPoolExecutor

VERIF = os.path.dirname(os.path.dirname(os.path.realpath(__file__)))


def hunk_summary(patch):
    files, funcs = [], []
    for l in open(patch, errors="replace"):
        if l.startswith("+++ b/"):
            files.append(l[6:].strip())
        m = re.match(r"@@ [^@]+ @@\s*(.*)", l)
        if m and m.group(1).strip():
            funcs.append(m.group(1).strip()[:80])
    return sorted(set(files)), sorted(set(funcs))


def run_seed(sid):
    prop = sid.split("-")[0]
    d = "/var/tmp/seedrepo-%s-%d" % (sid, os.getpid()); o = "/var/tmp/seedout-%s-%d" % (sid, os.getpid())
    shutil.rmtree(d, ignore_errors=True); shutil.rmtree(o, ignore_errors=True)
    os.makedirs(o)
    subprocess.run(["rsync", "-a", "--exclude", "_build", "--exclude", ".git", "/repo/", d + "/"], check=True)
    patch = os.path.join(VERIF, "seeded", sid, "patch.diff")
    files, funcs = hunk_summary(patch)
    res = {"seed": sid, "property": prop, "files": files, "hunks": funcs}
    p = subprocess.run(["patch", "-p1", "-s", "-i", patch], cwd=d, capture_output=True, text=True)
    if p.returncode != 0:
        res.update({"applies": False, "note": "patch no longer applies to the current tree: " + (p.stdout + p.stderr)[-300:]})
        shutil.rmtree(d, ignore_errors=True); shutil.rmtree(o, ignore_errors=True)
        return res
    env = dict(os.environ, VERIF_REPO=d, VERIF_OUT=o, VERIF_WORK=os.path.join(o, "work"), VERIF_NO_CANARY="1", VERIF_NO_COVER="1")
    r = subprocess.run([os.path.join(VERIF, "bin", "check"), prop, "--tier", "quick"], cwd=VERIF, env=env, capture_output=True, text=True)
    out = r.stdout + r.stderr
    res.update({"applies": True, "exit": r.returncode, "caught": r.returncode == 1,
                "refuted": [l.strip()[9:].strip()[:300] for l in out.splitlines() if l.strip().startswith("refuted:")][:8],
                "undecided": [l[:300] for l in out.splitlines() if l.startswith("UNDECIDED")][:4], "replays": []})
    for f in sorted(glob.glob(os.path.join(o, "replays", "*.json"))):
        try:
            j = json.load(open(f))
            n = j.get("native_replay") or {}
            res["replays"].append({"vu": j.get("vu"), "entry": j.get("entry"), "obligation": (j.get("obligation") or "")[:200],
                                   "reproduced": n.get("reproduced"), "observed": str(n.get("observed"))[:160]})
        except Exception:
            pass
    shutil.rmtree(d, ignore_errors=True); shutil.rmtree(o, ignore_errors=True)
    return res


def main():
    args = sys.argv[1:]
    jobs = 3
    if args and args[0] == "-j":
        jobs = int(args[1]); args = args[2:]
    seeds = args or sorted(os.path.basename(os.path.dirname(p)) for p in glob.glob(os.path.join(VERIF, "seeded", "*", "patch.diff")))
    rp = os.path.join(VERIF, "seeded", "RESULTS.json")
    results = json.load(open(rp)) if os.path.exists(rp) else {}
    with ThreadPoolExecutor(max_workers=jobs) as ex:
        for res in ex.map(run_seed, seeds):
            results[res["seed"]] = res
            print("SEED %s exit=%s caught=%s %s" % (res["seed"], res.get("exit"), res.get("caught"), (res.get("refuted") or res.get("undecided") or [res.get("note", "")])[:1]), flush=True)
            json.dump(results, open(rp, "w"), indent=1, sort_keys=True)


if __name__ == "__main__":
    main()
