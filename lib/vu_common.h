// Common harness vocabulary.
#ifndef VU_COMMON_H
#define VU_COMMON_H
#include "vstl_base.h"
// vacuity guard: the driver compiles every VU a second time with -DVU_COVER and demands that this
// assertion FAILS, i.e. that the end of the harness is reachable under the harness' preconditions
#ifdef VU_COVER
#define VU_REACHED() __CPROVER_assert(false, "vacuity.reach")
#else
#define VU_REACHED() ((void)0)
#endif
#define OBL(cond, name) __CPROVER_assert((cond), name)
#define VU_NEW(T) ((T *)vu_alloc(sizeof(T)))
inline void *vu_alloc(size_t n) { void *p = malloc(n); __CPROVER_assume(p != 0); return p; }
#endif
