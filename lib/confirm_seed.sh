#!/bin/bash
# usage: confirm_seed.sh <PROP> [worktree-suffix] [number-offset]  -- confirms every seed in /tmp/wt_<PROP>/seed_out/<n>: applies, builds, ctest, demo fails;
# reverts, rebuilds, demo passes.  Confirmed seeds are copied to /verif/seeded/<PROP>-<n>/ with meta.json.
P=$1; SUF=$2; OFF=${3:-0}; WT=/tmp/wt_$P$SUF; cd $WT || exit 2
git checkout -q -- . 
for d in seed_out/*/; do
  n=$(( $(basename $d) + OFF )); out=/verif/seeded/$P-$n; log=/tmp/confirm_$P-$n.log; : > $log
  [ -f $d/patch.diff ] || continue
  git apply --check $d/patch.diff >>$log 2>&1 || { echo "$P-$n: patch does not apply"; continue; }
  git apply $d/patch.diff
  cmake --build _b -j6 >>$log 2>&1; b=$?
  ctest --test-dir _b -j4 --timeout 900 >>$log 2>&1; t=$?
  bash $d/demo.sh $WT/_b >>$log 2>&1; dw=$?
  git checkout -q -- . ; git apply -R --check $d/patch.diff >/dev/null 2>&1
  cmake --build _b -j6 >>$log 2>&1
  bash $d/demo.sh $WT/_b >>$log 2>&1; dc=$?
  echo "$P-$n: build=$b ctest=$t demo_with=$dw demo_clean=$dc"
  if [ $b = 0 ] && [ $t = 0 ] && [ $dw != 0 ] && [ $dc = 0 ]; then
    mkdir -p $out; cp -r $d/* $out/
    python3 - $P $n $out $dw <<'PY'
import json,sys,os
P,n,out,dw=sys.argv[1:5]
readme=open(os.path.join(out,'README.md')).read() if os.path.exists(os.path.join(out,'README.md')) else ''
json.dump({"breaks_property":P,"seed":n,"needs_to_manifest":readme[:1500],
 "confirmed":{"compiles":True,"ctest_10_of_10_with_change":True,"demo_exit_with_change":int(dw),"demo_exit_without_change":0},
 "what_i_ran":"in a scratch worktree /tmp/wt_%s: git apply patch.diff; cmake --build; ctest (100%% passed); demo.sh (non-zero); git checkout; rebuild; demo.sh (0)"%P,
 "origin":"independent sub-agent given only the property text"}, open(os.path.join(out,'meta.json'),'w'), indent=1)
PY
  fi
done
